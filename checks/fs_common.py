"""Proof units for the publication / fault / session obligations of the C writer (C02, C09, C10, C11)."""
import os
import z3
from dvc.core import *
from dvc import cfront, cext, harness
from contracts import c_step, c_fs, c_obj, c_blocks

OWN = {
    "rd.": ("C02", "C09"),
    "match.": ("C02", "C09"),
    "ilsdrf.": ("C02", "C09"),
    "fs.": ("C02", "C09"),
    "fs.props_staged": ("C02", "C09"),
    # a session can never replace a data file finalized by an earlier one: creation only after the final name was seen absent
    "fs.create_only_if_final_absent": ("C02", "C09", "C11"),
    "fs.create_exclusive": ("C02", "C09", "C11"),
    # after a fault only the writer's own unfinished tmp file may be removed, and nothing written by a failed writer is published:
    # files finalized before the fault stay intact (C10)
    "fs.remove_tmp_only": ("C02", "C09", "C10"),
    "fs.publish_only_without_failure": ("C02", "C09", "C10"),
    "io.": ("C10",),
    "session.": ("C11",),
    "init.": ("C11",),
}


def owned(label, pid):
    best = None
    for pref, pids in OWN.items():
        if label.startswith(pref) and (best is None or len(pref) > len(best[0])):
            best = (pref, pids)
    return best is not None and pid in best[1]


PROP_ATTRS = ["H5Tget_class", "H5Tget_size", "H5Tget_order", "H5Tget_precision", "H5Tget_offset", "subdir_cadence_secs",
              "file_cadence_millisecs", "sample_rate_numerator", "sample_rate_denominator", "is_complex", "num_subchannels", "is_continuous"]


def add_fs_obligations(ck, tu, X, pid):
    def struct(label, ok, detail="", meta=None):
        if owned(label, pid):
            ck.struct(label, ok, detail, meta)

    # ---- 1. the write step (creation, roll-over) ---------------------------------------------------------------
    for sc in ("fresh", "open"):
        it = cfront.CInterp(tu, externals=X, config={"inline": c_step.INLINE, "specs": {}, "prune_full": False})
        ctx = c_step.run_step(it, sc)
        wobj = ctx.wptr.obj
        for s, rv in ctx.paths:
            c_fs.check_trace(s, rv, struct, "write_samples_to_file/%s" % sc)
            failed = is_conc(rv) and rv == 0
            names = [e.name for e in s.trace]
            wfin = s.mem[wobj].fields
            if not failed:
                c_fs.check_status_sites(s, rv, struct, "write_samples_to_file/%s" % sc, "reports success")
            elif "rename" in names:
                # a failing step that has already published the previous file: only the calls before the rename matter
                c_fs.check_status_sites(s, rv, struct, "write_samples_to_file/%s" % sc, "publishes the previous file", upto=names.index("rename"))
            if failed:
                # close renames whatever lies under the recorded tmp name: a creation that failed (e.g. a stale tmp file of a killed
                # session is in the way) leaves a recorded name that is not this writer's file, so the writer must be marked failed
                # (close then removes instead of publishing)
                cr = [e for e in s.trace if e.name == "H5Fcreate" and e.ret is not None and not is_conc(e.ret) and c_fs.must(s.pc, Z(e.ret) < 0)]
                if cr:
                    struct("fs.failed_create_never_published", c_fs.must(s.pc, Z(wfin["has_failure"]) != 0),
                           "after a failed H5Fcreate the record names a tmp file this writer did not create; has_failure must be set so that close does not publish it",
                           {"site": "H5Fcreate@%s" % cr[-1].func})
            if failed and isinstance(s.ghost.get("index"), dict):
                # accepted call that failed afterwards: either a refusal that leaves the writer usable, or has_failure is set
                refused = [e for e in s.trace if e.name == "access" and isinstance(e.args[0], SStr) and not c_fs.is_tmp(e.args[0])
                           and e.func == "digital_rf_create_hdf5_file" and c_fs.must(s.pc, Z(e.ret) != -1)]
                hf = wfin["has_failure"]
                if refused:
                    struct("session.refuse_existing.no_create", "H5Fcreate" not in names,
                           "a finalized file of that name exists: the writer must not create/replace it", {"site": "digital_rf_create_hdf5_file"})
                    struct("session.refuse_existing.not_fatal", c_fs.must(s.pc, Z(hf) == 0),
                           "refusing an existing file must not disable the writer (later periods stay writable)", {"site": "digital_rf_create_hdf5_file"})
                    # the record must not name the refused file as if it were open (finding F10)
                    base0 = ctx.wf["basename"]
                    same = isinstance(wfin["basename"], SStr) and isinstance(base0, SStr) and wfin["basename"].key() == base0.key()
                    struct("session.refused_name_not_recorded", same or not c_fs.must(s.pc, Z(wfin["hdf5_file"]) == 0),
                           "after a refused creation the record holds the refused basename while no file is open; a second write into that "
                           "period takes the 'file exists' branch with no open file and kills the writer", {"site": "strcpy(basename)@digital_rf_create_hdf5_file"})
                else:
                    fatal = c_fs.must(s.pc, Z(hf) != 0)
                    site = "unknown"
                    # which call failed? the last status-returning effect whose failure is implied by the path condition
                    for e in reversed(s.trace):
                        k = c_fs.STATUS_SITES.get(e.name)
                        if k and e.ret is not None and not is_conc(e.ret):
                            f = (Z(e.ret) != 0) if k == "idx" else ((Z(e.ret) < 0) if e.name != "mkdir" else (Z(e.ret) != 0))
                            if c_fs.must(s.pc, f):
                                site = "%s@%s" % (e.name, e.func)
                                break
                    struct("io.failure_disables_writer", fatal,
                           "an I/O failure after a call was accepted (%s) must set has_failure so that the writer refuses further writes" % site,
                           {"site": site})
        for f in (c_step.STEP_FN,) + c_step.INLINE:
            ck.add_function(tu.func_info(f))
    # ---- 2. digital_rf_close_write_hdf5 -------------------------------------------------------------------------
    close_unit(ck, tu, X, struct)
    # ---- 3. properties file: create or compare ------------------------------------------------------------------
    metadata_unit(ck, tu, X, struct)
    # ---- 4. refusal of writes after a failure --------------------------------------------------------------------
    if pid == "C10":
        it = cfront.CInterp(tu, externals=X, config={"prune_full": False})
        ctx = c_blocks.run_blocks(it)
        hf = ctx.wf["has_failure"]
        for s, rv in ctx.paths:
            ok = not c_fs.may(s.pc, hf != 0) or (is_conc(rv) and rv != 0 and not [e for e in s.trace if e.name.startswith("step_")])
            struct("io.refuse_after_failure.write_blocks", ok, "digital_rf_write_blocks_hdf5 must return non-zero at once when has_failure is set", {})
        ck.add_function(tu.func_info(c_blocks.BLOCKS_FN))
        write_hdf5_unit(ck, tu, X, struct)
    if pid in ("C02", "C09"):
        reader_side(ck, pid)
        ck.replayers.setdefault("fs.failed_create_never_published", replay_stale_tmp)
    ck.trust({k: v for k, v in cext.TRUSTED.items()})
    ck.assumptions += [
        "rename, mkdir and unlink are atomic; a file that was closed successfully before the process died keeps its bytes (crash = process death)",
        "HDF5 writes only through the handles of files it was asked to create/open; H5Fclose >= 0 means the file is complete and self-consistent",
        "one writer per channel directory at a time",
        "every status-returning external may fail at every call site (fresh symbolic status); scheduling itself is not executed",
    ]


def open_writer(it, st, has_failure_free=True):
    wptr, wf = c_obj.make_writer(it, st, subdir_null=z3.BoolVal(False))
    gh_fs, gh_fm, gh_T = z3.Int("gh.file_sec"), z3.Int("gh.file_msec"), z3.Int("gh.dir_sec")
    wv = st.mem[wptr.obj]
    st.mem[wv.fields["sub_directory"].obj] = c_step.subdir_str(gh_T)
    st.mem[wptr.obj] = wv.set("basename", c_step.base_str(gh_fs, gh_fm))
    for c in [wf["hdf5_file"] != 0, wf["dataset"] != 0, wf["index_dataset"] != 0, wf["dataspace"] != 0, wf["filespace"] != 0, wf["memspace"] != 0,
              wf["dataset_prop"] != 0, wf["index_prop"] != 0, z3.Or(wf["has_failure"] == 0, wf["has_failure"] == 1)]:
        st.assume(c)
    return wptr, wf


def close_unit(ck, tu, X, struct):
    name = "digital_rf_close_write_hdf5"
    if name not in tu.funcs:
        raise Undecided(name + " not found")
    it = cfront.CInterp(tu, externals=X, config={"inline": ("digital_rf_close_hdf5_file", "digital_rf_free_hdf5_data_object"), "specs": {}, "prune_full": False})
    st = State()
    wptr, wf = open_writer(it, st)
    paths = it.run_function(name, st, [wptr], {"overflow": "wrap"})
    for s, rv in paths:
        c_fs.check_trace(s, rv, struct, "close_write_hdf5")
        names = [e.name for e in s.trace]
        if "rename" in names:
            c_fs.check_status_sites(s, rv, struct, "close_write_hdf5", "publishes the last file")
        # after close no tmp file of this writer remains: the open file was renamed or (after a failure) removed, or it was absent
        acc = [e for e in s.trace if e.name == "access" and isinstance(e.args[0], SStr) and c_fs.is_tmp(e.args[0])]
        ok = bool(acc) and (("rename" in names or "remove" in names) or c_fs.must(s.pc, Z(acc[-1].ret) == -1))
        struct("fs.no_tmp_after_close", ok, "close must publish (rename) or delete the open tmp file: %s" % names[-6:], {})
        if "remove" in names:
            struct("fs.remove_only_after_failure", c_fs.must(s.pc, wf["has_failure"] != 0), "the tmp file may be deleted only after an I/O failure", {})
        if "rename" in names:
            struct("fs.publish_only_without_failure", c_fs.must(s.pc, wf["has_failure"] == 0), "a file written by a failed writer must not be published", {})
    ck.add_function(tu.func_info(name))
    ck.add_function(tu.func_info("digital_rf_close_hdf5_file"))


def metadata_unit(ck, tu, X, struct):
    name = "digital_rf_handle_metadata"
    if name not in tu.funcs:
        raise Undecided(name + " not found")
    fn = tu.funcs[name]
    it = cfront.CInterp(tu, externals=X, config={"prune_full": False})
    st = State()
    wptr, wf = c_obj.make_writer(it, st)
    paths = it.run_function(name, st, [wptr], {"overflow": "wrap"})
    q = lambda nm: z3.Function("q_" + nm, z3.IntSort(), z3.IntSort())(wf["dtype_id"])
    expected = {"H5Tget_class": q("H5Tget_class"), "H5Tget_size": q("H5Tget_size"), "H5Tget_order": q("H5Tget_order"),
                "H5Tget_precision": q("H5Tget_precision"),
                # H5Tget_offset returns int; the code stores and compares (uint64_t)H5Tget_offset(...)
                "H5Tget_offset": q("H5Tget_offset") % (1 << 64)}
    for f in PROP_ATTRS[5:]:
        expected[f] = wf[f]
    n_exist_ok = n_create = 0
    for s, rv in paths:
        c_fs.check_trace(s, rv, struct, "handle_metadata")
        names = [e.name for e in s.trace]
        existing = "H5Fopen" in names
        if existing:
            mut = [e.name for e in s.trace if e.name in c_fs.FS_MUTATORS or e.name in c_fs.H5_MUTATING]
            struct("session.compare_only_reads", not mut, "a new session on an existing channel must not modify anything: %s" % mut[:4], {})
            if is_conc(rv) and rv == 0:
                n_exist_ok += 1
                # success => every stored parameter equals the requested one
                opened = {}
                cur = None
                for e in s.trace:
                    if e.name == "H5Aopen" and isinstance(e.args[1], SStr):
                        cur = e.args[1].text()
                    elif e.name == "H5Aread" and cur is not None:
                        opened[cur] = e.info.get("value")
                        cur = None
                for nm in PROP_ATTRS:
                    v = opened.get(nm)
                    ok = v is not None and c_fs.must(s.pc, Z(v) == (expected[nm] if nm in expected else v))
                    struct("session.compare_all", ok,
                           "a session is accepted only if the stored %s equals the requested one (single-parameter mismatch must be refused)" % nm, {"attr": nm})
        else:
            if is_conc(rv) and rv == 0:
                n_create += 1
    struct("session.compare_all.paths", n_exist_ok >= 1 and n_create >= 1, "both the create and the compare branch of handle_metadata must be explored", {})
    ck.add_function(tu.func_info(name))


def write_hdf5_unit(ck, tu, X, struct):
    name = "digital_rf_write_hdf5"
    if name not in tu.funcs:
        raise Undecided(name + " not found")
    st = State()

    def h_blocks(interp, s, args, n):
        s = s.copy()
        r = fresh_int("blocks_ret")
        s.trace.append(Effect("call_write_blocks", list(args), r, n["_line"], name))
        return [(s, r)]
    it = cfront.CInterp(tu, contracts={"digital_rf_write_blocks_hdf5": h_blocks}, externals=X)
    wptr, wf = c_obj.make_writer(it, st)
    ovec = st.new_obj(Opaque("data"), "vector")
    paths = it.run_function(name, st, [wptr, z3.Int("leading_edge"), Ptr(ovec, 0), z3.Int("vector_length")], {"overflow": "wrap"})
    for s, rv in paths:
        called = [e for e in s.trace if e.name == "call_write_blocks"]
        ok = not c_fs.may(s.pc, wf["has_failure"] != 0) or (not called and is_conc(rv) and rv != 0)
        struct("io.refuse_after_failure.write_hdf5", ok, "digital_rf_write_hdf5 must return non-zero at once when has_failure is set", {})
    ck.add_function(tu.func_info(name))


def reader_side(ck, pid):
    """C02/C09 reader half: readers and listings only ever open final names, read-only, and tolerate vanished candidates"""
    import ast, types
    from checks import pyload, C14, C20
    from dvc import pysym
    ld = pyload.module("list_drf")
    # 1. listing grammar never matches a tmp. name (exhaustive over the bounded name grammar of C14)
    C14.grammar(ck, ld)
    # ... and the function that applies the grammar to a directory listing decorates exactly the final names (never a tmp. file)
    from checks import list_common, reader_common
    list_common.decorate_contract(ck, ld)
    if pid == "C09":
        # a long-lived reader: what exists now is what it returns, whatever it was asked before (cached open file)
        reader_common.read_cache_contract(ck, pyload.module("digital_rf_hdf5", symbolic=False))
        # ... and its bounds are the first / last sample of the finalized files (a bound beyond them is a sample that was never written)
        from checks import bounds_common
        symrd = pyload.module("digital_rf_hdf5")
        bounds_common.file_edges(ck, symrd, 3, "C09")
        bounds_common.dir_bounds(ck, symrd, 3)
    mod = pyload.module("digital_rf_hdf5")
    src = open(mod.__file__).read()
    tree = ast.parse(src)
    # 2. every h5py.File opened by reader-side classes is opened read-only; candidate names are built from final-name formats
    modes = []
    fmts = []
    for cls in [n for n in tree.body if isinstance(n, ast.ClassDef) and n.name in ("DigitalRFReader", "_top_level_dir_properties", "_channel_properties")]:
        for c in ast.walk(cls):
            if isinstance(c, ast.Call) and ast.unparse(c.func).endswith("h5py.File"):
                mode = c.args[1].value if len(c.args) >= 2 and isinstance(c.args[1], ast.Constant) else None
                modes.append((cls.name, mode, c.lineno))
            if isinstance(c, ast.Constant) and isinstance(c.value, str) and "@%" in c.value:
                fmts.append(c.value)
    ck.struct("rd.opens_readonly", bool(modes) and all(m == "r" for _, m, _ in modes), "h5py.File modes used by the RF reader: %s" % modes, {})
    ck.struct("rd.opens_final_names", bool(fmts) and all(f.startswith("rf@") for f in fmts), "file-name formats used by the RF reader: %s" % fmts, {})
    # 3. a candidate that does not exist is skipped without opening anything (real _read, os.access -> False)
    opened = []
    real_os, real_h5 = mod.os, mod.h5py
    try:
        def mk():
            mod.os = types.SimpleNamespace(path=real_os.path, access=lambda *a: False, R_OK=real_os.R_OK)
            mod.h5py = types.SimpleNamespace(File=lambda *a, **k: opened.append(a))
            self_ = types.SimpleNamespace(access_mode="local", top_level_dir="/top", channel_name="ch", _cachedFilename=None, _cachedFile=None, rdcc_nbytes=1)
            d = {}
            return (self_, pysym.sym_int("s"), pysym.sym_int("e"), ["a/rf@1.000.h5", "a/rf@2.000.h5"], d), {}, d
        outs = pysym.explore(mod._top_level_dir_properties._read, mk, [], max_paths=50)
    finally:
        mod.os, mod.h5py = real_os, real_h5
    ck.struct("rd.tolerates_absent", all(oc.kind == "return" and not oc.extra for oc in outs) and not opened,
              "a vanished candidate file must be skipped (no open, no entry, no exception): %s" % [(o.kind, o.value) for o in outs], {})
    # 4. bounds tolerate files that vanish between listing and opening
    gb = [n for n in ast.walk(tree) if isinstance(n, ast.FunctionDef) and n.name in ("_get_first_sample", "_get_last_sample", "_get_bounds")]
    txt = "\\n".join(ast.unparse(n) for n in gb)
    ck.struct("rd.bounds_tolerate_vanished", "except (IOError" in txt or "except IOError" in txt or "except OSError" in txt,
              "_get_bounds must skip listed files that cannot be opened", {})
    for nm in ("_top_level_dir_properties._read", "_top_level_dir_properties._get_bounds"):
        ck.add_function(pyload.source_info(mod, nm))


def replay_stale_tmp(o, model):
    from checks import replay_py
    r = replay_py.run_driver("stale_tmp.py", {"max_failures": 1}, timeout=600)
    if r["failures"]:
        f = r["failures"][0]
        return True, "restart on a tree with a stale tmp file: %s\n  case: %s" % (f["what"], str(f.get("case"))[:300]), f
    return False, "no stale tmp file published in %d restart scenarios" % r["cases"], None
