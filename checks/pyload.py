"""Imports the digital_rf package built from the CURRENT tree (python sources + freshly compiled extension) into this
process, so that contracts are checked on the real function objects."""
import os, sys, subprocess, tempfile, shutil, atexit, importlib
from dvc import cfront, harness, pysym
from dvc.core import Undecided

_state = {}


def overlay():
    if "dir" in _state:
        return _state["dir"]
    d = tempfile.mkdtemp(prefix="dvc_pyov_")
    p = subprocess.run([os.path.join(harness.VERIF, "tools/build_overlay.sh"), cfront.REPO, d], capture_output=True, text=True)
    if p.returncode != 0:
        shutil.rmtree(d, ignore_errors=True)
        raise Undecided("cannot build the current tree: " + (p.stderr or p.stdout)[-400:])
    _state["dir"] = d
    atexit.register(lambda: shutil.rmtree(d, ignore_errors=True))
    return d


def package():
    """the digital_rf package of the current tree"""
    if "pkg" in _state:
        return _state["pkg"]
    d = overlay()
    for k in [k for k in sys.modules if k == "digital_rf" or k.startswith("digital_rf.")]:
        del sys.modules[k]
    sys.path.insert(0, d)
    import warnings
    with warnings.catch_warnings():
        warnings.simplefilter("ignore")
        pkg = importlib.import_module("digital_rf")
    if not os.path.realpath(pkg.__file__).startswith(os.path.realpath(d)):
        raise Undecided("imported digital_rf from %s, not from the overlay" % pkg.__file__)
    _state["pkg"] = pkg
    return pkg


def module(name, symbolic=True):
    pkg = package()
    m = importlib.import_module("digital_rf." + name)
    if symbolic:
        # symbolic integers must flow through int()/min()/max() of the analysed module
        m.__dict__["int"] = pysym.p_int
        m.__dict__["min"] = pysym.p_min
        m.__dict__["max"] = pysym.p_max
    return m


def source_info(mod, qualname):
    import inspect, hashlib
    obj = mod
    for part in qualname.split("."):
        obj = getattr(obj, part)
    obj = getattr(obj, "__func__", obj)
    src = inspect.getsource(obj)
    lines, first = inspect.getsourcelines(obj)
    return {"name": "%s.%s" % (mod.__name__, qualname), "file": inspect.getsourcefile(obj).replace(overlay(), cfront.REPO + "/python"),
            "line_first": first, "line_last": first + len(lines) - 1, "sha256": hashlib.sha256(src.encode()).hexdigest()[:16]}
