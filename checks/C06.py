"""C06 - self-describing data files, recoverable channel properties."""
import os
import z3
from dvc.core import *
from dvc import cfront, cext, harness
from checks import step_common, replay_index, replay_writer

REPO = cfront.REPO
CSRC = os.path.join(REPO, "c/lib/rf_write_hdf5.c")


def f1_pred(o):
    """known finding F1: a block that starts exactly on the first sample of the next file (b[i] == w+T and g[i] == E)"""
    a = o.meta.get("a")
    L = o.meta.get("L")
    if a is None or not L or L < 2:
        return None
    from contracts import c_index
    return z3.Or([z3.And(z3.Select(a.b, i) > a.w, z3.Select(a.g, i) == a.E,
                         z3.Select(a.g, i - 1) + (z3.Select(a.b, i) - z3.Select(a.b, i - 1)) > a.next) for i in range(1, L)])


def run(tier, seed, replay=None):
    ck = harness.Check("C06", tier, seed, level="other")
    tu = cfront.TU(CSRC)
    X = cext.make_externals()
    step_common.add_step_obligations(ck, tu, X, want=("C06",))
    from checks import attrs_common
    attrs_common.add_attr_obligations(ck, tu, X)
    # a later session joins the channel only if every stored property equals its own (otherwise files of two element types / cadences
    # would sit under one drf_properties.h5 and their attributes could not all repeat it)
    from checks import fs_common

    def struct(label, ok, detail="", meta=None):
        if label.startswith("session.compare_all"):
            ck.struct(label, ok, detail, meta)
    fs_common.metadata_unit(ck, tu, X, struct)
    from checks import C11 as _c11
    ck.replayers["session."] = _c11.replay_sessions
    ck.finding_preds["F1"] = f1_pred
    ck.replayers["digital_rf_create_rf_data_index"] = replay_index.replay
    ck.replayers["assert.digital_rf_create_rf_data_index"] = replay_index.replay
    ck.replayers["nowrap.digital_rf_create_rf_data_index"] = replay_index.replay
    ck.replayers["bounds.digital_rf_create_rf_data_index"] = replay_index.replay
    for pref in ("step.", "blocks.", "pre.", "L-index-post", "digital_rf_write_rf_data_index", "assert.", "bounds.", "nowrap."):
        ck.replayers.setdefault(pref, replay_writer.replay)
    ck.discharge()
    if tier == "thorough":
        r = replay_writer.relevant(replay_writer.run_histories(n_random=6000, seed=seed, max_failures=6, timeout=3000))
        ck.bounded_runs.append(("bounded.write_histories", "random boundary-directed write histories through the rebuilt library vs exact model", r["calls"], r["failures"]))
    ck.extra["explanation"] = ("per-file index invariant (FileInv summary) preserved by every write step: proved for all inputs at the level of "
                               "digital_rf_write_samples_to_file against the contract of create_rf_data_index; the body of create_rf_data_index "
                               "itself is verified with its loops unrolled (bounded, labelled)")
    return ck
