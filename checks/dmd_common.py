"""Digital Metadata reader under contract (C12): DigitalMetadataReader.read against the contracts of _get_file_list /
_add_metadata / get_bounds (modular), and _add_metadata's window filter on one file.  Real methods on symbolic sample
indices (dvc/pysym); h5py / numpy stand-ins record what is opened, filtered and populated."""
import types, itertools, collections
import z3
from dvc.core import *
from dvc import pysym
from checks import pyload


def _same(a, b):
    if pysym.is_sym(a) or pysym.is_sym(b):
        return z3.eq(z3.simplify(pysym.Zt(a)), z3.simplify(pysym.Zt(b)))
    return a is b or a == b


def read_wiring(ck, mod, kmain=3, kff=2):
    R = mod.DigitalMetadataReader
    ck.add_function(pyload.source_info(mod, "DigitalMetadataReader.read"))
    func = "digital_metadata.DigitalMetadataReader.read"
    S0, S1, B0, B1 = z3.Ints("start_sample end_sample bound_first bound_last")
    COLS = ["colA"]
    nshapes = 0
    for method, has_start, has_end in itertools.product((None, "ffill", "pad"), (True, False), (True, False)):
        ff_shapes = [()]
        if method:
            ff_shapes = [tuple(c) for n in range(0, kff + 1) for c in itertools.product((0, 1, 2), repeat=n)]
        for km, ffs in itertools.product(range(0, kmain + 1), ff_shapes):
            main_files = ["main%d.h5" % i for i in range(km)]
            ff_files = ["ff%d.h5" % i for i in range(len(ffs))]
            MK = [z3.Int("mkey%d" % i) for i in range(km)]
            FK = {ff_files[j]: [z3.Int("fkey%d_%d" % (j, i)) for i in range(ffs[j])] for j in range(len(ffs))}
            START = S0 if has_start else B1
            # assumed contracts of the callees: entries of one file ascend and lie in the window they were asked for; files are in time order
            hyp = [B0 <= B1, B0 >= 0, S0 >= 0, S1 >= 0]
            flat = [k for f in ff_files for k in FK[f]]
            hyp += [a < b for a, b in zip(flat, flat[1:])] + [z3.And(k >= B0, k <= START) for k in flat]
            hyp += [a < b for a, b in zip(MK, MK[1:])]
            nshapes += 1

            def mk():
                rec = dict(gfl=[], add=[], bounds=0)

                def get_bounds():
                    rec["bounds"] += 1
                    return (pysym.SymInt(B0), pysym.SymInt(B1))

                def gfl(a, b):
                    rec["gfl"].append((a, b))
                    first_is_ff = bool(method)
                    if first_is_ff and len(rec["gfl"]) == 1:
                        return list(ff_files)
                    return list(main_files)

                def add(d, f, columns, a, b, is_edge):
                    rec["add"].append((d, f, columns, a, b, is_edge))
                    if f in FK:
                        for k in FK[f]:
                            d[pysym.SymInt(k)] = ("value", f, str(k))
                    else:
                        i = main_files.index(f)
                        d[pysym.SymInt(MK[i])] = ("value", f, str(MK[i]))
                # a reader created before the first write of the channel: no field names known yet (visibility, C20)
                self_ = types.SimpleNamespace(get_bounds=get_bounds, _get_file_list=gfl, _add_metadata=add, _fields=None)
                kw = dict(columns=COLS, method=method)
                if has_start:
                    kw["start_sample"] = pysym.SymInt(S0)
                if has_end:
                    kw["end_sample"] = pysym.SymInt(S1)
                return (self_,), kw, rec
            outs = pysym.explore(R.read, mk, hyp, max_paths=400)
            tag = "method=%s start=%s end=%s main_files=%d ffill_files=%s" % (method, has_start, has_end, km, list(ffs))
            meta = {"shape": tag}
            END = S1 if has_end else START
            for oc in outs:
                r = oc.extra
                if oc.kind == "raise":
                    ck.struct("dmd.read.refusal_is_ValueError", isinstance(oc.value, ValueError) and not r["add"], "%s: raised %r" % (tag, oc.value), {"attr": tag})
                    ck.add([Obl("dmd.read.refuses_only_reversed_range", func, 0, oc.pc, (START > S1) if has_end else z3.BoolVal(False), kind="post", meta=meta)])
                    continue
                if has_end:
                    ck.add([Obl("dmd.read.accepts_only_ordered_range", func, 0, oc.pc, START <= S1, kind="post", meta=meta)])
                res = oc.value
                ok_type = isinstance(res, collections.OrderedDict)
                ck.struct("dmd.read.returns_ordered_dict", ok_type, "%s: returned %r" % (tag, type(res)), {"attr": tag})
                if not ok_type:
                    continue
                g = list(r["gfl"])
                adds = list(r["add"])
                want_ff = None
                if method:
                    okg = len(g) == 2 and _same(g[0][0], pysym.SymInt(B0)) and _same(g[0][1], pysym.SymInt(START))
                    ck.struct("dmd.read.ffill_searches_from_first_bound_to_start", okg, "%s: _get_file_list calls %s" % (tag, g), {"attr": tag})
                    # look-back: files newest first, each filtered to [first bound, start] (is_edge), stop at the first that has an entry
                    ff_adds = [a for a in adds if a[1] in FK]
                    expect = []
                    for f in reversed(ff_files):
                        expect.append(f)
                        if FK[f]:
                            want_ff = FK[f][-1]
                            break
                    okf = [a[1] for a in ff_adds] == expect and all(a[2] is COLS and _same(a[3], pysym.SymInt(B0)) and _same(a[4], pysym.SymInt(START)) and a[5] is True and a[0] is not res for a in ff_adds)
                    ck.struct("dmd.read.ffill_newest_first_filtered", okf, "%s: look-back _add_metadata calls %s" % (tag, [(a[1], a[3], a[4], a[5]) for a in ff_adds]), {"attr": tag})
                    main_start = START + 1
                else:
                    okg = len(g) == 1
                    main_start = START
                if len(g) >= 1:
                    ck.add([Obl("dmd.read.main_window", func, 0, oc.pc, z3.And(pysym.Zt(g[-1][0]) == main_start, pysym.Zt(g[-1][1]) == END), kind="post", meta=meta)])
                ck.struct("dmd.read.file_list_calls", okg, "%s: _get_file_list calls %s" % (tag, g), {"attr": tag})
                m_adds = [a for a in adds if a[1] not in FK]
                okm = [a[1] for a in m_adds] == main_files and all(a[0] is res and a[2] is COLS for a in m_adds) \
                    and all(a[5] is True for a in m_adds if a[1] in (main_files[:1] + main_files[-1:]))
                ck.struct("dmd.read.every_file_once_in_order_edges_filtered", okm, "%s: _add_metadata calls %s" % (tag, [(a[1], a[5]) for a in m_adds]), {"attr": tag})
                if m_adds:
                    ck.add([Obl("dmd.read.files_get_main_window", func, 0, oc.pc, z3.And([z3.And(pysym.Zt(a[3]) == main_start, pysym.Zt(a[4]) == END) for a in m_adds]), kind="post", meta=meta)])
                keys = list(res.keys())
                want = ([want_ff] if want_ff is not None else []) + MK
                okk = len(keys) == len(want) and all(_same(a, pysym.SymInt(b)) for a, b in zip(keys, want))
                ck.struct("dmd.read.result_is_lookback_then_window_entries", okk, "%s: keys %s, expected %s" % (tag, keys, want), {"attr": tag})
            ck.add(pysym.obligations_of(outs, func))
    for o in ck.obls:
        if o.label.startswith("dmd.read") and not o.bounded:
            o.bounded = "<= %d files in the window, <= %d look-back files with <= 2 entries each (all sample indices symbolic)" % (kmain, kff)
    ck.extra["dmd_read_shapes"] = nshapes


class _Vec:
    """numpy int64 vector stand-in (concrete keys; comparisons against symbolic bounds give symbolic masks)"""
    def __init__(self, xs):
        self.xs = list(xs)

    def sort(self):
        self.xs.sort()

    def __ge__(self, o):
        return [x >= o for x in self.xs]

    def __le__(self, o):
        return [x <= o for x in self.xs]

    def __gt__(self, o):
        return [x > o for x in self.xs]

    def __lt__(self, o):
        return [x < o for x in self.xs]

    def __getitem__(self, mask):
        return _Vec([x for x, m in zip(self.xs, mask) if m])

    def __iter__(self):
        return iter(self.xs)

    def __len__(self):
        return len(self.xs)


def add_metadata_window(ck, mod):
    R = mod.DigitalMetadataReader
    ck.add_function(pyload.source_info(mod, "DigitalMetadataReader._add_metadata"))
    func = "digital_metadata.DigitalMetadataReader._add_metadata"
    S0, S1 = z3.Ints("sample0 sample1")
    real_np, real_h5 = mod.np, mod.h5py
    keysets = [[], ["7"], ["30", "10", "20"], ["5", "100", "50", "7"]]
    for keys, is_edge, colmode in itertools.product(keysets, (True, False), ("none", "string", "list")):
        columns = {"none": None, "string": "colA", "list": ["colA", "colB"]}[colmode]

        def mk():
            rec = dict(opened=[], pop=[])

            class Grp(dict):
                pass

            class F(dict):
                def __enter__(self):
                    return self

                def __exit__(self, *a):
                    return False

            def File(name, mode="r", **kw):
                rec["opened"].append((name, mode))
                f = F()
                for k in keys:
                    g = Grp()
                    g["colA"] = ("item", k, "colA")
                    g["colB"] = ("item", k, "colB")
                    g.key = k
                    f[k] = g
                return f

            def fromiter(it, dtype, count=-1):
                return _Vec([int(x) for x in it])

            def logical_and(a, b):
                return [pysym.lift(z3.And(pysym.Bt(x), pysym.Bt(y))) if (pysym.is_sym(x) or pysym.is_sym(y)) else (x and y) for x, y in zip(a, b)]
            mod.h5py = types.SimpleNamespace(File=File)
            mod.np = types.SimpleNamespace(fromiter=fromiter, logical_and=logical_and, int64="int64")

            def populate(d, obj, name):
                rec["pop"].append((d, obj, name))
                d[name] = ("populated", obj)
            self_ = types.SimpleNamespace(_populate_data=populate, _file_cadence_secs=1)
            d = collections.OrderedDict()
            rec["dict"] = d
            return (self_, d, "/m/sub/metadata@1.h5", columns, pysym.SymInt(S0), pysym.SymInt(S1), is_edge), {}, rec
        try:
            outs = pysym.explore(R._add_metadata, mk, [S0 >= 0, S0 <= S1], max_paths=600)
        finally:
            mod.np, mod.h5py = real_np, real_h5
        tag = "keys=%s is_edge=%s columns=%s" % (keys, is_edge, colmode)
        meta = {"shape": tag}
        for oc in outs:
            r = oc.extra
            if oc.kind != "return":
                ck.add([Obl("dmd.add.total", func, 0, oc.pc, z3.BoolVal(False), kind="post", meta=meta)])
                continue
            ck.struct("dmd.add.opens_readonly", r["opened"] == [("/m/sub/metadata@1.h5", "r")], "%s: opened %s" % (tag, r["opened"]), {"attr": tag})
            d = r["dict"]
            got = list(d.keys())
            ck.struct("dmd.add.ascending_each_once", got == sorted(got) and len(set(got)) == len(got) and all(isinstance(k, int) for k in got), "%s: entries %s" % (tag, got), {"attr": tag})
            goals = []
            for k in sorted(int(x) for x in keys):
                inw = z3.And(S0 <= k, k <= S1) if is_edge else z3.BoolVal(True)
                goals.append(inw if k in got else z3.Not(inw))
            ck.add([Obl("dmd.add.window_exact", func, 0, oc.pc, z3.And(goals) if goals else z3.BoolVal(True), kind="post", meta=meta)])
            # values: the group of that sample (all columns), the named column, or a dict of the listed columns
            okv = True
            for k in got:
                v = d[k]
                if colmode == "none":
                    okv &= v[0] == "populated" and getattr(v[1], "key", None) == str(k)
                elif colmode == "string":
                    okv &= v == ("populated", ("item", str(k), "colA"))
                else:
                    okv &= isinstance(v, dict) and v == {"colA": ("populated", ("item", str(k), "colA")), "colB": ("populated", ("item", str(k), "colB"))}
            ck.struct("dmd.add.values_of_that_sample", bool(okv), "%s: %s" % (tag, {k: d[k] for k in got}), {"attr": tag})
        ck.add(pysym.obligations_of(outs, func))


# ---------------------------------------------------------------------------------------------------------------------
class _TStr(str):
    """subdirectory name stand-in carrying the symbolic time it was rendered from"""
    pass


def writer_placement(ck, mod, mmax=3):
    """DigitalMetadataWriter._sample_group_generator, the real generator on m ascending symbolic samples: every sample's group is created in
    the file <prefix>@T.h5 with T = floor(floor(k*d/n)/C)*C inside the subdirectory floor(T/S)*S, one group per sample, in order."""
    from spec.timespec import floor_is
    from checks.C13 import FloatRate
    W = mod.DigitalMetadataWriter
    ck.add_function(pyload.source_info(mod, "DigitalMetadataWriter._sample_group_generator"))
    func = "digital_metadata.DigitalMetadataWriter._sample_group_generator"
    n, d, C, S = z3.Ints("n d C S")
    real = {k: mod.__dict__[k] for k in ("os", "h5py", "datetime")}
    import os as real_os, datetime as real_dt
    for m in range(1, mmax + 1):
        ks = [z3.Int("k%d" % i) for i in range(m)]
        hyp = [n >= 1, d >= 1, C >= 1, S >= 1, ks[0] >= 0] + [a < b for a, b in zip(ks, ks[1:])]

        def mk():
            rec = dict(files=[], mkdirs=[], groups=[])

            class Grp:
                def __init__(self, f, name):
                    self.file, self.name = f, name

            class F:
                def __init__(self, path, mode):
                    self.path, self.mode, self.names, self.closed = path, mode, [], False

                def __enter__(self):
                    return self

                def __exit__(self, *a):
                    self.closed = True
                    return False

                def create_group(self, name):
                    if name in self.names:
                        raise ValueError("exists")
                    if self.closed:
                        raise RuntimeError("group created in a closed file")
                    self.names.append(name)
                    g = Grp(self, name)
                    rec["groups"].append(g)
                    return g

            def File(path, mode="r", **kw):
                # recover the symbolic file time behind the digits of the basename from the display log of this path
                log = pysym.Ctx.cur.__dict__.get("display_log", [])
                f = F(path, mode)
                f.ts_term = log[-1][0] if log else None
                f.ts_digits = log[-1][1] if log else None
                rec["files"].append(f)
                return f

            class DT:
                def __init__(self, t):
                    self.t = t

                def strftime(self, fmt):
                    s_ = _TStr("<subdir %s>" % fmt)
                    s_.sym = self.t
                    s_.fmt = fmt
                    return s_

            class Path:
                def __init__(self, parts):
                    self.parts = parts

            def join(*parts):
                return Path(parts)
            fake_path = types.SimpleNamespace(join=join, exists=lambda p: False)
            mod.os = types.SimpleNamespace(path=fake_path, makedirs=lambda p, *a, **k: rec["mkdirs"].append(p))
            mod.h5py = types.SimpleNamespace(File=File)
            mod.datetime = types.SimpleNamespace(datetime=types.SimpleNamespace(fromtimestamp=lambda t, tz=None: DT(t)), timezone=real_dt.timezone)
            self_ = types.SimpleNamespace(_file_cadence_secs=pysym.SymInt(C), _subdir_cadence_secs=pysym.SymInt(S), _sample_rate_numerator=pysym.SymInt(n),
                                          _sample_rate_denominator=pysym.SymInt(d), _samples_per_second=FloatRate(), _file_name="md", _metadata_dir="/m")
            return (self_, [pysym.SymInt(k) for k in ks]), {}, rec

        def runner(self_, samples):
            return list(W._sample_group_generator(self_, samples))
        try:
            outs = pysym.explore(runner, mk, hyp, max_paths=300)
        finally:
            for kk, v in real.items():
                mod.__dict__[kk] = v
        for oc in outs:
            r = oc.extra
            meta = {"m": m}
            tag = "samples=%d" % m
            if oc.kind != "return":
                from checks.C13 import FloatUsed
                if isinstance(oc.value, FloatUsed):
                    ck.struct("w.gen.integer_arithmetic", False, "the writer's placement uses floating point (%s)" % oc.value, {"attr": tag, "no_input": True})
                else:
                    ck.add([Obl("w.gen.total", func, 0, oc.pc, z3.BoolVal(False), kind="post", meta=meta)])
                continue
            groups = oc.value
            okg = len(groups) == m and all(g is r["groups"][i] for i, g in enumerate(groups)) and [g.name for g in groups] == [str(pysym.SymInt(k)) for k in ks]
            ck.struct("w.gen.one_group_per_sample_in_order", okg, "%s: groups %s" % (tag, [g.name for g in groups]), {"attr": tag})
            if not okg:
                continue
            # every file the call touched is closed when the generator is exhausted (what write() returns on): the data is on disk
            ck.struct("w.gen.files_closed_on_return", all(f.closed for f in r["files"]) and len(r["files"]) >= 1, "%s: open files at return: %s" % (tag, [f.path for f in r["files"] if not f.closed]), {"attr": tag})
            for i, g in enumerate(groups):
                f = g.file
                p = f.path
                okp = isinstance(p, object) and hasattr(p, "parts") and len(p.parts) == 2 and hasattr(p.parts[0], "parts") and len(p.parts[0].parts) == 2 \
                    and p.parts[0].parts[0] == "/m" and isinstance(p.parts[0].parts[1], _TStr) and p.parts[0].parts[1].fmt == "%Y-%m-%dT%H-%M-%S" \
                    and isinstance(p.parts[1], str) and f.ts_digits is not None and p.parts[1] == "md@%d.h5" % f.ts_digits and f.mode == "a"
                ck.struct("w.gen.path_shape", okp, "%s: sample %d is written to %r (expected /m/<subdir time>/md@<file time>.h5 opened for append)" % (tag, i, getattr(p, "parts", p)), {"attr": tag})
                if not okp:
                    continue
                sub = pysym.Zt(p.parts[0].parts[1].sym)
                fts = f.ts_term
                sec, q, T = z3.Int("sec%d" % i), z3.Int("qT%d" % i), z3.Int("T%d" % i)
                spec = [floor_is(sec, ks[i] * d, n), T == q * C, q * C <= sec, sec < q * C + C]
                ck.add([Obl("w.gen.file_time", func, 0, oc.pc + spec, fts == T, kind="post", meta=dict(meta, sample=i)),
                        Obl("w.gen.subdir", func, 0, oc.pc + [fts >= 0], z3.And(sub <= fts, fts < sub + S, z3.Exists([z3.Int("mm")], sub == z3.Int("mm") * S)), kind="post", meta=dict(meta, sample=i))])
                ck.struct("w.gen.subdir_created", any(x is p.parts[0] for x in r["mkdirs"]), "%s: the subdirectory of sample %d is not created before its file is opened" % (tag, i), {"attr": tag})
        ck.add(pysym.obligations_of(outs, func))
    for o in ck.obls:
        if o.label.startswith("w.gen") and not o.bounded:
            o.bounded = "<= %d samples per write call (sample indices, rate and cadences symbolic)" % mmax


def bounds_and_latest(ck, mod):
    """DigitalMetadataReader.get_bounds over a listing whose files are vanished / empty / hold groups named by decimal sample indices of
    mixed digit counts (enumerated), and read_latest = read(last bound, ffill) (modular)."""
    R = mod.DigitalMetadataReader
    for nm in ("get_bounds", "read_latest"):
        ck.add_function(pyload.source_info(mod, "DigitalMetadataReader." + nm))
    real = {k: mod.__dict__[k] for k in ("h5py", "list_drf")}
    real_print = mod.__dict__.get("print")
    kinds = {"gone": None, "empty": [], "a": ["9", "10", "100"], "b": ["1000", "999"], "c": ["20000"]}
    n = 0
    bad = []
    for k in range(0, 4):
        for combo in itertools.product(sorted(kinds), repeat=k):
            # files in time order hold ascending sample ranges: keep combinations whose non-empty key sets ascend
            ordered = [c for c in combo if kinds[c]]
            if ordered != sorted(ordered):
                continue
            files = ["/m/s/metadata@%d.h5" % i for i in range(k)]
            content = dict(zip(files, [kinds[c] for c in combo]))
            calls = []

            class F(dict):
                def __enter__(self):
                    return self

                def __exit__(self, *a):
                    return False

            def File(path, mode="r", **kw):
                calls.append(("open", path, mode))
                if content[path] is None:
                    raise IOError("gone")
                return F({g: object() for g in content[path]})

            def ilsdrf(path, **kw):
                calls.append(("ilsdrf", path, dict(kw)))
                return iter(list(reversed(files)) if kw.get("reverse") else list(files))
            mod.h5py = types.SimpleNamespace(File=File)
            mod.list_drf = types.SimpleNamespace(ilsdrf=ilsdrf)
            mod.__dict__["print"] = lambda *a, **k_: None
            self_ = types.SimpleNamespace(_metadata_dir="/m")
            try:
                try:
                    got = R.get_bounds(self_)
                except IOError as e:
                    got = "IOError"
                except Exception as e:
                    got = "raised %r" % (e,)
            finally:
                for kk, v in real.items():
                    mod.__dict__[kk] = v
                if real_print is None:
                    mod.__dict__.pop("print", None)
                else:
                    mod.__dict__["print"] = real_print
            n += 1
            keys = [int(x) for c in combo if kinds[c] for x in kinds[c]]
            want = (min(keys), max(keys)) if keys else "IOError"
            ls = [c for c in calls if c[0] == "ilsdrf"]
            okl = all(c[1] == "/m" and c[2].get("include_dmd", True) is True and c[2].get("include_drf", True) is False and c[2].get("recursive", True) is False
                      and c[2].get("include_dmd_properties") in (False,) for c in ls) and [bool(c[2].get("reverse")) for c in ls] in ([False, True], [False])
            oko = all(c[2] == "r" for c in calls if c[0] == "open")
            if got != want or not okl or not oko:
                bad.append((combo, got, want, okl, oko))
    ck.enumerations.append(("dmd.bounds.scan", n, len(bad), bad[:3]))
    ck.struct("dmd.bounds.scan", not bad, "get_bounds deviates: (files, got, expected, listing flags ok, read-only ok) %s" % (bad[:3],), {})
    # read_latest
    rec = []
    self_ = types.SimpleNamespace(get_bounds=lambda: (5, 77), read=lambda *a, **k: (rec.append((a, k)), "RESULT")[1])
    out = R.read_latest(self_, columns=["x"])
    a, k = rec[0] if rec else ((), {})
    allk = dict(zip(("start_sample", "end_sample", "columns", "method"), a))
    allk.update(k)
    ok = len(rec) == 1 and out == "RESULT" and allk.get("start_sample") == 77 and allk.get("end_sample") in (None, 77) and allk.get("columns") == ["x"] and allk.get("method") in ("ffill", "pad")
    ck.struct("dmd.read_latest.reads_at_last_bound_with_ffill", ok, "read_latest called read%s" % (rec,), {})


def _flatten_spec(d, prefix=""):
    """specification of the field names of a (nested) metadata sample: '/'-joined key path of every leaf, depth-first in insertion order"""
    out = []
    for k, v in d.items():
        if isinstance(v, dict):
            out.extend(_flatten_spec(v, prefix + k + "/"))
        else:
            out.append((prefix + k, v))
    return out


def writer_inputs(ck, mod):
    """DigitalMetadataWriter.write input handling (enumerated shapes): what reaches _write for sample i is exactly the flattened
    (path, value) pairs of that sample's metadata, for dict-of-values (per-sample arrays of length N, or one value for all samples)
    and list-of-dicts input, with arbitrarily nested dicts; empty or mismatched input is refused before anything is written."""
    import numpy as np
    W = mod.DigitalMetadataWriter
    for nm in ("DigitalMetadataWriter.write", "_recursive_items"):
        ck.add_function(pyload.source_info(mod, nm))
    bad = []
    n = 0
    leaves = lambda tag, N: {"scalar": 7, "text": "abc", "per_sample": np.arange(N) + 10, "vector_for_all": np.arange(N + 2), "none": None}
    shapes = [
        lambda L: {"a": L["scalar"]},
        lambda L: {"a": L["per_sample"], "b": L["text"]},
        lambda L: {"rx": {"gain": L["per_sample"], "name": L["text"]}, "z": L["scalar"]},
        lambda L: {"rx": {"lo": {"freq": L["per_sample"], "lock": L["scalar"]}, "name": L["text"]}, "lo": L["vector_for_all"]},
        lambda L: {"a": {"b": {"c": {"d": L["per_sample"]}}}, "n": L["none"]},
    ]
    for N in (1, 3):
        L = leaves("x", N)
        for mk in shapes:
            data = mk(L)
            # (1) _recursive_items against the specification
            n += 1
            got = list(mod._recursive_items(data))
            want = _flatten_spec(data)
            if [g[0] for g in got] != [w[0] for w in want] or any(g[1] is not w[1] for g, w in zip(got, want)):
                bad.append(("_recursive_items", str(data)[:120], [g[0] for g in got], [w[0] for w in want]))
            # (2) write(): dict form and the equivalent list-of-dicts form
            per_sample = []
            for i in range(N):
                def pick(d):
                    o = {}
                    for k, v in d.items():
                        if isinstance(v, dict):
                            o[k] = pick(v)
                        elif isinstance(v, np.ndarray) and len(v) == N:
                            o[k] = v[i]
                        else:
                            o[k] = v
                    return o
                per_sample.append(pick(data))
            for form, arg in (("dict", data), ("list", per_sample)):
                n += 1
                rec = []
                self_ = types.SimpleNamespace(_fields=None, _set_fields=lambda names: rec.append(("fields", list(names))),
                                              _write=lambda samples, keyvals: rec.append(("write", list(samples), [list(kv) for kv in keyvals])))
                try:
                    W.write(self_, list(range(100, 100 + N)), arg)
                except Exception as e:
                    bad.append(("write raised", form, str(data)[:100], repr(e)))
                    continue
                wr = [r for r in rec if r[0] == "write"]
                ok = len(wr) == 1 and [int(x) for x in wr[0][1]] == list(range(100, 100 + N)) and len(wr[0][2]) == N
                if ok:
                    for i in range(N):
                        want_i = _flatten_spec(per_sample[i])
                        got_i = wr[0][2][i]
                        same = [g[0] for g in got_i] == [w[0] for w in want_i] and all(
                            (g[1] is w[1]) or (np.array_equal(g[1], w[1]) if isinstance(w[1], np.ndarray) or isinstance(g[1], np.ndarray) else g[1] == w[1]) for g, w in zip(got_i, want_i))
                        ok = ok and same
                if not ok:
                    bad.append(("write", form, str(data)[:100], wr[0][2][:1] if wr else None))
    # refusals
    for what, samples, data in (("no samples", [], {"a": 1}), ("list length mismatch", [1, 2, 3], [{"a": 1}, {"a": 2}]), ("negative sample", [-1], {"a": 1})):
        n += 1
        rec = []
        self_ = types.SimpleNamespace(_fields=None, _set_fields=lambda names: None, _write=lambda s_, kv: rec.append(1))
        try:
            W.write(self_, samples, data)
            if what != "negative sample":
                bad.append(("accepted", what))
        except ValueError:
            if rec:
                bad.append(("refused after writing", what))
        except Exception as e:
            if what != "negative sample":
                bad.append(("wrong exception", what, repr(e)))
    # a dict containing itself is refused, not looped over
    cyc = {"a": 1}
    cyc["self"] = cyc
    n += 1
    try:
        list(mod._recursive_items(cyc))
        bad.append(("cyclic dict accepted",))
    except ValueError:
        pass
    except RecursionError:
        bad.append(("cyclic dict recursed without bound",))
    ck.enumerations.append(("dmd.write.inputs", n, len(bad), bad[:3]))
    ck.struct("dmd.write.inputs", not bad, "write()/_recursive_items deviate from the field-name contract: %s" % (bad[:3],), {"no_input": False})


def populate_contract(ck, mod):
    """DigitalMetadataReader._populate_data on real (in-memory) HDF5 objects, enumerated over value shapes: what the writer stored with
    create_dataset(key, data=value) comes back as the equal Python value - numbers, booleans, text (also non-ASCII), numeric arrays,
    lists of text (also non-ASCII), nested groups as nested dicts."""
    import numpy as np, h5py
    R = mod.DigitalMetadataReader
    ck.add_function(pyload.source_info(mod, "DigitalMetadataReader._populate_data"))
    values = {
        "int": 7, "negative": -3, "float": 2.5, "bool": True, "np_scalar": np.float32(1.25), "big": 2 ** 40,
        "text": "abc", "text_non_ascii": "Troms\u00f8 \u00b0C", "empty_text": "",
        "int_list": [1, 2, 3], "float_array": np.array([[1.5, 2.5], [3.5, 4.5]]), "int_array": np.arange(5, dtype="i4"),
        "text_list": ["ab", "cde"], "text_list_non_ascii": ["Troms\u00f8", "x", "Andr\u00e9"],
    }
    bad = []
    n = 0

    def same(a, b):
        if isinstance(b, np.ndarray) or isinstance(a, np.ndarray):
            return np.asarray(a).shape == np.asarray(b).shape and bool(np.array_equal(np.asarray(a), np.asarray(b)))
        if isinstance(b, list):
            return isinstance(a, (list, np.ndarray)) and list(a) == b
        if isinstance(b, str):
            return isinstance(a, str) and a == b
        if isinstance(b, np.generic):
            return a == b.item()
        return a == b and type(a) in (type(b), int, float, bool)
    f = h5py.File("dvc_populate.h5", "w", driver="core", backing_store=False)
    try:
        g = f.create_group("1000")
        for k, v in values.items():
            g.create_dataset(k, data=v)
        sub = g.create_group("nest")
        sub.create_dataset("a", data=1.5)
        sub.create_group("deeper").create_dataset("t", data="\u00e5")
        self_ = types.SimpleNamespace()
        self_._populate_data = types.MethodType(R._populate_data, self_)
        for k, v in values.items():
            n += 1
            d = {}
            try:
                R._populate_data(self_, d, g[k], k)
                if list(d) != [k] or not same(d[k], v):
                    bad.append((k, "stored %r, read back %r" % (v, d.get(k))))
            except Exception as e:
                bad.append((k, "stored %r, reading raised %r" % (v, e)))
        n += 1
        d = {}
        try:
            R._populate_data(self_, d, g, 1000)
            got = d.get(1000)
            ok = isinstance(got, dict) and set(got) == set(values) | {"nest"} and got["nest"] == {"a": 1.5, "deeper": {"t": "\u00e5"}} and all(same(got[k], v) for k, v in values.items())
            if not ok:
                bad.append(("whole sample", "read back %r" % (got,)))
        except Exception as e:
            bad.append(("whole sample", "raised %r" % (e,)))
    finally:
        f.close()
    ck.enumerations.append(("dmd.populate.values_round_trip", n, len(bad), bad[:3]))
    ck.struct("dmd.populate.values_round_trip", not bad, "_populate_data does not return what was stored: %s" % (bad[:3],), {"no_input": False})


def params_contract(ck):
    """Digital Metadata channel parameters (enumerated on real files): what the writer was created with is what a reader and a later
    writer find - cadences, rational rate and file prefix are stored and read back unchanged; parameter sets that break the cadence rule
    (file cadence divides the subdirectory cadence; positive integers) are refused; a later writer whose parameters differ in any one
    place is refused and leaves dmd_properties.h5 byte-identical."""
    import os, tempfile, shutil, hashlib, itertools
    pkg = pyload.package()
    dm = pyload.module("digital_metadata", symbolic=False)
    for nm in ("DigitalMetadataWriter.__init__", "DigitalMetadataWriter._parse_properties", "DigitalMetadataWriter._write_properties", "DigitalMetadataReader.__init__"):
        ck.add_function(pyload.source_info(dm, nm))
    base = tempfile.mkdtemp(prefix="dvc_dmdp_")
    bad = []
    n = 0
    try:
        good = [(3600, 60, 100, 1, "md"), (10, 10, 200, 3, "metadata"), (120, 4, 250000000, 7, "x"), (1, 1, 1, 1, "m"), (86400, 3600, 12500001, 2, "tag")]
        for k, (S, C, num, den, name) in enumerate(good):
            d = os.path.join(base, "g%d" % k)
            os.makedirs(d)
            n += 1
            try:
                w = pkg.DigitalMetadataWriter(d, S, C, num, den, name)
                r = pkg.DigitalMetadataReader(d, accept_empty=True)
                got = (r.get_subdir_cadence_secs(), r.get_file_cadence_secs(), r.get_sample_rate_numerator(), r.get_sample_rate_denominator(), r.get_file_name_prefix())
                if tuple(int(x) if not isinstance(x, str) else x for x in got) != (S, C, num, den, name):
                    bad.append(("round trip", (S, C, num, den, name), got))
                wv = (w._subdir_cadence_secs, w._file_cadence_secs, w._sample_rate_numerator, w._sample_rate_denominator, w._file_name)
                if wv != (S, C, num, den, name):
                    bad.append(("writer state", (S, C, num, den, name), wv))
            except Exception as e:
                bad.append(("valid parameters refused", (S, C, num, den, name), repr(e)))
                continue
            pf = os.path.join(d, "dmd_properties.h5")
            h0 = hashlib.md5(open(pf, "rb").read()).hexdigest()
            # a later writer: same parameters accepted, any single difference refused, file untouched
            n += 1
            try:
                pkg.DigitalMetadataWriter(d, S, C, num, den, name)
            except Exception as e:
                bad.append(("same parameters refused by a later writer", (S, C, num, den, name), repr(e)))
            for i, alt in enumerate([(S * 2, C, num, den, name), (S, C * 2 if S % (C * 2) == 0 else C + S, num, den, name), (S, C, num + 1, den, name), (S, C, num, den + 1, name), (S, C, num, den, name + "2")]):
                n += 1
                if alt[0] % alt[1] != 0:
                    continue
                try:
                    pkg.DigitalMetadataWriter(d, *alt)
                    bad.append(("mismatching later writer accepted", (S, C, num, den, name), alt))
                except (ValueError, IOError):
                    pass
                if hashlib.md5(open(pf, "rb").read()).hexdigest() != h0:
                    bad.append(("properties file changed by a refused writer", (S, C, num, den, name), alt))
        for k, (S, C, num, den, name) in enumerate([(60, 7, 100, 1, "md"), (10, 20, 100, 1, "md"), (0, 1, 100, 1, "md"), (10, 0, 100, 1, "md"), (10.5, 1, 100, 1, "md"), (10, 1, 0, 1, "md"), (10, 1, 100, 0, "md"), (10, 1, 1.5, 1, "md")]):
            d = os.path.join(base, "b%d" % k)
            os.makedirs(d)
            n += 1
            try:
                pkg.DigitalMetadataWriter(d, S, C, num, den, name)
                bad.append(("invalid parameters accepted", (S, C, num, den, name)))
            except (ValueError, ZeroDivisionError):
                pass
            except Exception as e:
                bad.append(("invalid parameters: wrong exception", (S, C, num, den, name), repr(e)))
            if os.path.exists(os.path.join(d, "dmd_properties.h5")):
                bad.append(("refused parameters left a properties file", (S, C, num, den, name)))
    finally:
        shutil.rmtree(base, ignore_errors=True)
    ck.enumerations.append(("dmd.params.stored_and_enforced", n, len(bad), bad[:3]))
    ck.struct("dmd.params.stored_and_enforced", not bad, "metadata channel parameters: %s" % (bad[:3],), {"no_input": False})
