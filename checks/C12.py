"""C12 - Digital Metadata round trip (bounded differential + placement dependency of C13)."""
from dvc import harness
from checks import C13, pyload, replay_py


def run(tier, seed, replay=None):
    ck, mod = C13.run_common("C12", tier, seed)
    C13.placement(ck, mod)
    for nm in ("DigitalMetadataWriter.write", "DigitalMetadataWriter._write", "DigitalMetadataReader.read", "DigitalMetadataReader.get_bounds",
               "DigitalMetadataReader._add_metadata", "DigitalMetadataReader.read_latest", "DigitalMetadataReader._populate_data"):
        ck.add_function(pyload.source_info(mod, nm))
    from checks import dmd_common
    dmd_common.read_wiring(ck, mod)
    dmd_common.add_metadata_window(ck, mod)
    dmd_common.bounds_and_latest(ck, mod)
    dmd_common.writer_inputs(ck, pyload.module("digital_metadata", symbolic=False))
    dmd_common.populate_contract(ck, pyload.module("digital_metadata", symbolic=False))
    ck.replayers["dmd."] = C13.replay_dmd
    from checks import filelist_common
    filelist_common.dmd_file_list_contract(ck, mod)
    ck.replayers["dmdlist."] = C13.replay_dmd
    ck.replayers["w.place"] = C13.replay_dmd
    ck.replayers["w.gen"] = C13.replay_dmd
    ck.replayers["r.place"] = C13.replay_dmd
    ck.discharge()
    nch = 1500 if tier == "thorough" else 150
    r = replay_py.run_driver("dmd_history.py", {"seed": seed + 1, "channels": nch, "queries": 20, "max_failures": 3}, timeout=3000)
    ck.bounded_runs.append(("bounded.dmd_roundtrip", "%d metadata channels x (writes as single samples / list of dicts / dict of arrays, duplicate write refused) x 20 range queries with None/ffill and a column: keys, order, values vs exact model" % nch,
                            r["cases"], r["failures"]))
    ck.assumptions += ["read is verified against the contracts of _get_file_list / _add_metadata / get_bounds, _add_metadata's window filter on one file is verified on stand-ins for h5py/numpy; write/_write/_populate_data/get_bounds over h5py are covered by the bounded differential only - labelled bounded, not proved",
                       "h5py stores and returns scalars, strings, arrays faithfully"]
    ck.extra["explanation"] = "placement dependency proved (C13); reader orchestration (window, look-back, edge filtering, order) by path-complete symbolic execution of the real read / _add_metadata against callee contracts; the round trip through h5py is checked by a bounded differential against an exact model"
    return ck
