"""C12 - Digital Metadata round trip (bounded differential + placement dependency of C13)."""
from dvc import harness
from checks import C13, pyload, replay_py


def run(tier, seed, replay=None):
    ck, mod = C13.run_common("C12", tier, seed)
    C13.placement(ck, mod)
    for nm in ("DigitalMetadataWriter.write", "DigitalMetadataWriter._write", "DigitalMetadataReader.read", "DigitalMetadataReader.get_bounds",
               "DigitalMetadataReader._add_metadata", "DigitalMetadataReader.read_latest", "DigitalMetadataReader._populate_data"):
        ck.add_function(pyload.source_info(mod, nm))
    ck.replayers["w.place"] = C13.replay_dmd
    ck.replayers["r.place"] = C13.replay_dmd
    ck.discharge()
    nch = 1500 if tier == "thorough" else 150
    r = replay_py.run_driver("dmd_history.py", {"seed": seed + 1, "channels": nch, "queries": 20, "max_failures": 3}, timeout=3000)
    ck.bounded_runs.append(("bounded.dmd_roundtrip", "%d metadata channels x (writes as single samples / list of dicts / dict of arrays, duplicate write refused) x 20 range queries with None/ffill and a column: keys, order, values vs exact model" % nch,
                            r["cases"], r["failures"]))
    ck.assumptions += ["the round trip itself (write/_write/read/_add_metadata/_populate_data over h5py) is covered by the bounded differential only - labelled bounded, not proved",
                       "h5py stores and returns scalars, strings, arrays faithfully"]
    ck.extra["explanation"] = "placement dependency proved (C13); the round trip through h5py is checked by a bounded differential against an exact model"
    return ck
