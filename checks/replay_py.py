"""Runs a replay/bounded-differential driver of replay_src/ under /venv/bin/python against the overlay of the current tree."""
import os, json, subprocess, tempfile
from dvc import harness
from checks import pyload


def run_driver(script, spec, timeout=1200):
    d = pyload.overlay()
    with tempfile.NamedTemporaryFile("w", suffix=".json", delete=False) as f:
        json.dump(spec, f)
        sp = f.name
    try:
        env = dict(os.environ, PYTHONPATH=d)
        q = subprocess.run(["/venv/bin/python", os.path.join(harness.VERIF, "replay_src", script), sp], capture_output=True, text=True, env=env, timeout=timeout)
        i = q.stdout.rfind('{"failures"')
        lines = [q.stdout[i:].strip().splitlines()[0]] if i >= 0 else []
        if not lines:
            return {"failures": [{"what": "driver died (exit %s): %s" % (q.returncode, (q.stderr or "")[-400:])}], "cases": 0}
        return json.loads(lines[-1])
    finally:
        os.unlink(sp)
