"""C15 - live event filter agrees with listing; finalizing rename is a creation.
The property's quantifier is an explicit bounded grammar: the check enumerates it exhaustively against the REAL
dispatch method (complete for that quantifier; enumeration, not deduction - labelled so)."""
import os, sys, itertools, datetime, re
from dvc.core import *
from dvc import harness
from checks import pyload

T = 1483228800
EPOCH = datetime.datetime(1970, 1, 1, tzinfo=datetime.timezone.utc)
sys.path.insert(0, os.path.join(harness.VERIF, "replay_src"))


def grammar():
    names = {
        "rf@%d.000.h5" % T: ("drf", T * 1000), "rf@%d.250.h5" % T: ("drf", T * 1000 + 250), "metadata@%d.h5" % T: ("dmd", T * 1000),
        "md@%d.h5" % (T + 1): ("dmd", (T + 1) * 1000),
        "drf_properties.h5": ("drfprop", None), "dmd_properties.h5": ("dmdprop", None), "metadata.h5": ("bothprop", None),
        "tmp.rf@%d.000.h5" % T: None, "tmp.metadata@%d.h5" % T: None, "rf@%d.00.h5" % T: None, "rf@%d.000.hdf5" % T: None,
        "rf@abc.000.h5": None, "rf%d.000.h5" % T: None, "notes.txt": None, "tmp.drf_properties.h5": None, "properties.h5": None,
    }
    good_sub = "2017-01-01T00-00-00"
    paths = {}
    for nm, info in names.items():
        isprop = info is not None and info[0].endswith("prop")
        # format depth: data files in <ch>/<subdir>/, property files in <ch>/
        paths["/top/ch/%s/%s" % (good_sub, nm)] = info if (info and not isprop) else ("props-at-subdir-depth" if isprop else None)
        paths["/top/ch/%s" % nm] = info if isprop else None
        for bad in ("2017-01-01", "2017-01-01T00-00-0x", "17-01-01T00-00-00"):
            paths["/top/ch/%s/%s" % (bad, nm)] = None if not isprop else "props-in-other-dir"
    return paths


def run(tier, seed, replay=None):
    ck = harness.Check("C15", tier, seed, level="other")
    wd = pyload.module("watchdog_drf", symbolic=False)
    from watchdog.events import FileCreatedEvent, FileModifiedEvent, FileDeletedEvent, FileMovedEvent, DirCreatedEvent, DirMovedEvent
    ck.add_function(pyload.source_info(wd, "DigitalRFEventHandler.dispatch"))
    ck.add_function(pyload.source_info(wd, "DigitalRFEventHandler.__init__"))
    paths = grammar()
    import list_oracle as LO

    def info(p):
        """what the listing specification says about a path (independent parser of replay_src/list_oracle.py)"""
        d, nm = os.path.split(p)
        if nm in LO.DRFPROPS | LO.DMDPROPS:
            kind = "bothprop" if nm == "metadata.h5" else ("drfprop" if nm in LO.DRFPROPS else "dmdprop")
            return (kind, None)
        if LO.parse_subdir(os.path.basename(d)) is None:
            return None
        pf = LO.parse_file(nm)
        return pf

    class Usable(dict):
        def __missing__(self, p):
            return info(p)

        def get(self, p, default=None):
            return self[p]

        def __contains__(self, p):
            return True
    # property files elsewhere than the channel directory are outside the property's grammar (files at the format's depth)
    usable = Usable({p: i for p, i in paths.items() if not isinstance(i, str)})
    for p, i in list(usable.items()):
        if info(p) != i and not (i is None and info(p) is not None and os.path.basename(p) in LO.DRFPROPS | LO.DMDPROPS):
            raise EngineError("grammar table and specification parser disagree on %s: %s vs %s" % (p, i, info(p)))

    class Rec(wd.DigitalRFEventHandler):
        def on_any_event(self, event):
            self.got.append(event)
    flagsets = []
    for drf, dmd, pdrf, pdmd in itertools.product((True, False), (True, False), (None, True, False), (None, True, False)):
        flagsets.append(dict(include_drf=drf, include_dmd=dmd, include_drf_properties=pdrf, include_dmd_properties=pdmd))
    ms = lambda x: EPOCH + datetime.timedelta(milliseconds=x)
    windows = [(None, None), (ms(T * 1000), ms(T * 1000)), (ms(T * 1000 + 1), None), (None, ms(T * 1000 - 1)), (ms(T * 1000 + 250), ms(T * 1000 + 250)),
               (ms(T * 1000 + 251), None), (None, ms(T * 1000 + 249)), (ms(T * 1000 - 5), ms((T + 1) * 1000)), (ms((T + 1) * 1000 + 1), None)]
    # the same instants given with another UTC offset, or naive (documented as UTC): the window is a set of instants
    tz = lambda mins: datetime.timezone(datetime.timedelta(minutes=mins))
    windows += [(ms(T * 1000).astimezone(tz(330)), ms(T * 1000).astimezone(tz(330))), (ms(T * 1000 + 250).astimezone(tz(-180)), None),
                (None, ms(T * 1000 + 249).astimezone(tz(120))), (ms(T * 1000).replace(tzinfo=None), ms(T * 1000 + 250).replace(tzinfo=None))]
    inst = lambda x: x.replace(tzinfo=datetime.timezone.utc) if x.tzinfo is None else x
    n = 0
    bad = []
    init_errors = 0
    for fl in flagsets:
        pd = fl["include_drf"] if fl["include_drf_properties"] is None else fl["include_drf_properties"]
        pm = fl["include_dmd"] if fl["include_dmd_properties"] is None else fl["include_dmd_properties"]
        nothing = not (fl["include_drf"] or fl["include_dmd"] or pd or pm)
        for (ws, we) in windows:
            try:
                h = Rec(starttime=ws, endtime=we, **fl)
            except ValueError:
                if not nothing:
                    bad.append(("constructor refused a valid flag combination", fl))
                init_errors += 1
                continue
            if nothing:
                bad.append(("constructor accepted a handler that includes nothing", fl))
                continue

            def selected(p):
                info = usable.get(p)
                if info is None:
                    return False
                kind, t = info
                if kind == "drf":
                    ok = fl["include_drf"]
                elif kind == "dmd":
                    ok = fl["include_dmd"]
                elif kind == "drfprop":
                    return bool(pd)
                elif kind == "dmdprop":
                    return bool(pm)
                else:
                    return bool(pd or pm)
                if not ok:
                    return False
                if ws is not None and ms(t) < inst(ws):
                    return False
                if we is not None and ms(t) > inst(we):
                    return False
                return True

            def name_ok(p):
                """grammar match ignoring the time window"""
                info = usable.get(p)
                if info is None:
                    return False
                kind = info[0]
                return {"drf": fl["include_drf"], "dmd": fl["include_dmd"], "drfprop": bool(pd), "dmdprop": bool(pm), "bothprop": bool(pd or pm)}[kind]
            plist = sorted(dict.keys(usable))
            for p in plist:
                for cls in (FileCreatedEvent, FileModifiedEvent, FileDeletedEvent):
                    h.got = []
                    h.dispatch(cls(p))
                    n += 1
                    want = selected(p)
                    if bool(h.got) != want or (h.got and (type(h.got[0]) is not cls or h.got[0].src_path != p)):
                        bad.append(("%s(%s) with %s window %s: dispatched=%s, a listing would%s list it" % (cls.__name__, p, fl, (ws, we), bool(h.got), "" if want else " not"),))
                h.got = []
                h.dispatch(DirCreatedEvent(p))
                n += 1
                if h.got:
                    bad.append(("directory event for %s dispatched" % p,))
            # moves: finalizing rename, rename to a non-matching name, both matching, neither
            data = [p for p in plist if usable[p] and usable[p][0] in ("drf", "dmd")]
            for dest in data:
                d, b = os.path.split(dest)
                src = os.path.join(d, "tmp." + b)
                pairs = [(src, dest), (dest, os.path.join(d, "old." + b + ".bak")), (dest, dest.replace("@", "_copy@")), (src, os.path.join(d, "tmp.x"))]
                # a property file at subdirectory depth is outside the grammar
                for s_, d_ in pairs:
                    h.got = []
                    h.dispatch(FileMovedEvent(s_, d_))
                    n += 1
                    so, do = name_ok(s_), name_ok(d_)
                    eff = d_ if do else s_
                    # time of the effective path
                    intime = True
                    if so or do:
                        t = usable[eff][1]
                        if ws is not None and ms(t) < inst(ws):
                            intime = False
                        if we is not None and ms(t) > inst(we):
                            intime = False
                    if not (so or do) or not intime:
                        want = None
                    elif so and do:
                        want = ("moved", s_, d_)
                    elif do:
                        want = ("created", d_, None)
                    else:
                        want = ("deleted", s_, None)
                    got = None
                    if h.got:
                        e = h.got[0]
                        got = (e.event_type, e.src_path, getattr(e, "dest_path", None) or None)
                    if got != want:
                        bad.append(("move %s -> %s with %s window %s: delivered %s, expected %s" % (s_, d_, fl, (ws, we), got, want),))
                    # the same rename of a DIRECTORY is never an event about a data file (a listing never lists a directory)
                    h.got = []
                    h.dispatch(DirMovedEvent(s_, d_))
                    n += 1
                    if h.got:
                        e = h.got[0]
                        bad.append(("move of directory %s -> %s with %s: delivered %s" % (s_, d_, fl, (e.event_type, e.src_path, getattr(e, "dest_path", None))),))
    ck.enumerations.append(("disp.grammar_agrees_with_listing", n, len(bad), bad[:3]))
    ck.struct("disp.grammar_agrees_with_listing", not bad, "first disagreements: %s" % [b[0] for b in bad[:3]], {"no_input": False})
    ck.struct("disp.rename_is_creation", not [b for b in bad if b[0].startswith("move")], "move conversion wrong: %s" % [b[0] for b in bad if b[0].startswith("move")][:2], {"no_input": False})
    ck.extra["explanation"] = ("exhaustive evaluation of the real DigitalRFEventHandler.dispatch over the property's bounded grammar: %d events "
                               "(16 names x 5 placements, 36 flag combinations, 13 windows incl. other UTC offsets and naive times, created/modified/deleted/directory/moved)" % n)
    ck.extra["exhaustive"] = True
    ck.assumptions += ["the listing side of the comparison is the listing specification that C14 checks lsdrf against",
                       "outside the grammar (not claimed): watchdog compiles the regexes case-insensitively, the filter cannot see the channel kind, a properties file at subdirectory depth is accepted"]
    ck.trust({"watchdog FileSystemEventHandler.dispatch": "calls on_any_event/on_<type> for the event it is given"})
    return ck


def _nm(wd, h, p):
    return False
