"""C09 - writer-side effect-order obligations (checks/fs_common.py)."""
import os
from dvc.core import *
from dvc import cfront, cext, harness
from checks import fs_common

CSRC = os.path.join(cfront.REPO, "c/lib/rf_write_hdf5.c")


def run(tier, seed, replay=None):
    ck = harness.Check("C09", tier, seed, level="other")
    tu = cfront.TU(CSRC)
    X = cext.make_externals()
    fs_common.add_fs_obligations(ck, tu, X, "C09")
    ck.discharge()
    ck.extra["explanation"] = "effect-order / frame obligations evaluated at every file-system and HDF5 call site on every explored path of the writer (loop-free functions: complete path enumeration)"
    return ck
