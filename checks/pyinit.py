"""DigitalRFWriter.__init__ cadence checks (C04) on the real constructor with symbolic cadences."""
import types
import z3
from dvc.core import *
from dvc import pysym
from checks import pyload


def add_py_cadence_rule(ck):
    mod = pyload.module("digital_rf_hdf5")
    W = mod.DigitalRFWriter
    ck.add_function(pyload.source_info(mod, "DigitalRFWriter.__init__"))
    S, F = z3.Int("subdir_cadence_secs"), z3.Int("file_cadence_millisecs")
    calls = []
    real_ext = mod._py_rf_write_hdf5
    real_access = mod.os

    def mk():
        del calls[:]
        mod._py_rf_write_hdf5 = types.SimpleNamespace(init=lambda *a: (calls.append(a), object())[1])
        import numpy as np
        self_ = object.__new__(W)
        return (self_, "/tmp", np.int16, pysym.SymInt(S), pysym.SymInt(F), 0, 100, 1), dict(uuid_str="u", is_complex=False), self_
    try:
        outs = pysym.explore(W.__init__, mk, [], max_paths=200)
    finally:
        mod._py_rf_write_hdf5 = real_ext
    n_ok = 0
    from spec.timespec import multiple_of
    for oc in outs:
        func = "digital_rf_hdf5.DigitalRFWriter.__init__"
        if oc.kind == "return":
            n_ok += 1
            ck.add([Obl("init.cadence_rule.py", func, 0, oc.pc, z3.And(S >= 1, F >= 1, multiple_of(S * 1000, F)), kind="post")])
            s = oc.extra
            ck.add([Obl("init.cadences_passed.py", func, 0, oc.pc, z3.And(pysym.Zt(s.subdir_cadence_secs) == S, pysym.Zt(s.file_cadence_millisecs) == F), kind="post")])
        elif not isinstance(oc.value, ValueError):
            ck.struct("init.cadence_rule.py.raises_ValueError", False, "constructor raised %r" % (oc.value,), {})
    ck.add(pysym.obligations_of(outs, "digital_rf_hdf5.DigitalRFWriter.__init__"))
    if n_ok == 0:
        raise EngineError("no successful path through DigitalRFWriter.__init__")
