"""DigitalRFWriter.__init__ cadence checks (C04) on the real constructor with symbolic cadences."""
import types
import z3
from dvc.core import *
from dvc import pysym
from checks import pyload


def add_py_cadence_rule(ck):
    mod = pyload.module("digital_rf_hdf5")
    W = mod.DigitalRFWriter
    ck.add_function(pyload.source_info(mod, "DigitalRFWriter.__init__"))
    S, F = z3.Int("subdir_cadence_secs"), z3.Int("file_cadence_millisecs")
    calls = []
    real_ext = mod._py_rf_write_hdf5
    real_access = mod.os

    def mk():
        del calls[:]
        mod._py_rf_write_hdf5 = types.SimpleNamespace(init=lambda *a: (calls.append(a), object())[1])
        import numpy as np
        self_ = object.__new__(W)
        return (self_, "/tmp", np.int16, pysym.SymInt(S), pysym.SymInt(F), 0, 100, 1), dict(uuid_str="u", is_complex=False), self_
    try:
        outs = pysym.explore(W.__init__, mk, [], max_paths=200)
    finally:
        mod._py_rf_write_hdf5 = real_ext
    n_ok = 0
    from spec.timespec import multiple_of
    for oc in outs:
        func = "digital_rf_hdf5.DigitalRFWriter.__init__"
        if oc.kind == "return":
            n_ok += 1
            ck.add([Obl("init.cadence_rule.py", func, 0, oc.pc, z3.And(S >= 1, F >= 1, multiple_of(S * 1000, F)), kind="post")])
            s = oc.extra
            ck.add([Obl("init.cadences_passed.py", func, 0, oc.pc, z3.And(pysym.Zt(s.subdir_cadence_secs) == S, pysym.Zt(s.file_cadence_millisecs) == F), kind="post")])
        elif not isinstance(oc.value, ValueError):
            ck.struct("init.cadence_rule.py.raises_ValueError", False, "constructor raised %r" % (oc.value,), {})
    ck.add(pysym.obligations_of(outs, "digital_rf_hdf5.DigitalRFWriter.__init__"))
    if n_ok == 0:
        raise EngineError("no successful path through DigitalRFWriter.__init__")


# ----------------------------------------------------------------------------------------------------------------------------
# C11: the parameters a session is opened with are the ones handed to the C layer (which compares them with the stored ones)

COMPS = ("i1", "u1", "i2", "u2", "i4", "u4", "i8", "u8", "f4", "f8")


def init_cells():
    for comp in COMPS:
        for order in ("<", ">", "="):
            forms = ["real", "real_as_complex", "struct"] + (["npcomplex"] if comp[0] == "f" else [])
            for form in forms:
                yield comp, order, form


def cell_dtype(np, comp, order, form):
    base = np.dtype(order + comp)
    if form == "struct":
        return np.dtype([("r", base), ("i", base)])
    if form == "npcomplex":
        return np.dtype(order + "c%d" % (2 * base.itemsize))
    return base


def add_py_init_params(ck):
    """Enumerated contract of the real DigitalRFWriter.__init__ against a recording stand-in for the extension's init: for every
    component type x byte order x way of giving the sample type, the byte order, class, size and complex flag that reach the C layer
    are those of the sample type's components, and the other channel parameters are passed on unchanged."""
    import sys
    import numpy as np
    mod = pyload.module("digital_rf_hdf5", symbolic=False)
    W = mod.DigitalRFWriter
    ck.add_function(pyload.source_info(mod, "DigitalRFWriter.__init__"))
    real_ext = mod._py_rf_write_hdf5
    bad, n = [], 0
    PARAMS = dict(S=3600, F=500, start=123456789, num=200, den=3, uuid="session-uuid", comp_level=4, checksum=True, nsub=3, cont=False)
    try:
        for comp, order, form in init_cells():
            calls = []
            mod._py_rf_write_hdf5 = types.SimpleNamespace(init=lambda *a: (calls.append(a), object())[1])
            dt = cell_dtype(np, comp, order, form)
            base = np.dtype(order + comp)
            self_ = object.__new__(W)
            n += 1
            try:
                W.__init__(self_, "/tmp", dt, PARAMS["S"], PARAMS["F"], PARAMS["start"], PARAMS["num"], PARAMS["den"], uuid_str=PARAMS["uuid"],
                           compression_level=PARAMS["comp_level"], checksum=PARAMS["checksum"], is_complex=(form == "real_as_complex"),
                           num_subchannels=PARAMS["nsub"], is_continuous=PARAMS["cont"], marching_periods=False)
            except Exception as e:
                bad.append(((comp, order, form), "constructor raised %r" % (e,)))
                continue
            if len(calls) != 1:
                bad.append(((comp, order, form), "%d calls of the extension's init" % len(calls)))
                continue
            a = calls[0]
            # the component type the writer stores (and casts samples to): the given one, except that a numpy complex type is
            # normalised to native order by design (its samples are converted by value)
            eff = getattr(self_, "realdtype", None)
            if not isinstance(eff, np.dtype) or eff.kind != comp[0] or eff.itemsize != base.itemsize or (form != "npcomplex" and eff != base):
                bad.append(((comp, order, form), "writer stores component type %r for samples given as %r" % (eff, dt)))
                continue
            base = eff
            is_big = base.byteorder == ">" or (base.byteorder == "=" and sys.byteorder == "big")
            want_order = ">" if is_big else "<"
            want = {"directory": "/tmp", "class": comp[0], "size": base.itemsize, "S": PARAMS["S"], "F": PARAMS["F"], "start": PARAMS["start"], "num": PARAMS["num"],
                    "den": PARAMS["den"], "uuid": PARAMS["uuid"], "compression": PARAMS["comp_level"], "checksum": 1, "complex": int(form != "real"),
                    "nsub": PARAMS["nsub"], "continuous": PARAMS["cont"]}
            got = {"directory": a[0], "class": a[2], "size": a[3], "S": a[4], "F": a[5], "start": a[6], "num": a[7], "den": a[8], "uuid": a[9], "compression": a[10],
                   "checksum": a[11], "complex": a[12], "nsub": a[13], "continuous": bool(a[14])}
            diff = {k: (got[k], want[k]) for k in want if got[k] != want[k]}
            # one-byte samples have no byte order: any value is accepted there
            if base.itemsize > 1 and a[1] != want_order:
                diff["byteorder"] = (a[1], want_order)
            if diff:
                bad.append(((comp, order, form), "extension init received %s (got, expected)" % (diff,)))
    finally:
        mod._py_rf_write_hdf5 = real_ext
    ck.enumerations.append(("py.init.parameters_reach_the_c_layer", n, len(bad), bad[:3]))
    ck.struct("py.init.parameters_reach_the_c_layer", not bad,
              "DigitalRFWriter.__init__ hands the C layer other channel parameters than the session was opened with in %d of %d cells, e.g. %s" % (len(bad), n, bad[:3]),
              {"cells": [list(b[0]) for b in bad[:6]]})
    ck.assumptions += ["DigitalRFWriter.__init__: enumerated over 10 component types x 3 byte orders x 3-4 ways of giving the sample type with one distinctive value per other parameter (numpy dtype algebra executed, not modelled)"]


def replay_init_params(o, model):
    """native replay: a channel recorded with one byte order, then a session that differs in the byte order only (must be refused), per failing cell"""
    from checks import replay_py
    cells = (getattr(o, "meta", None) or {}).get("cells") or [list(c) for c in init_cells()]
    r = replay_py.run_driver("init_params.py", {"cells": cells, "max_failures": 1}, timeout=600)
    if r["failures"]:
        f = r["failures"][0]
        return True, "sessions on the real writer: %s\n  case: %s" % (f["what"], str(f.get("case"))[:400]), f
    return False, "no deviation among %d two-session scenarios" % r["cases"], None
