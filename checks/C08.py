"""C08 - reader query coherence."""
import os, itertools, types
import z3
from dvc.core import *
from dvc import cfront, harness, pysym
from checks import pyload, replay_py


class FakeIndex:
    def __init__(self, rows, holder):
        self.rows, self.holder = rows, holder
        self.shape = (len(rows), 2)

    def __getitem__(self, key):
        r, c = key
        if c == 0:
            self.holder["row"] = r      # the loop body starts by reading [row, 0]
        return self.rows[r][c]


class FakeData:
    def __init__(self, length, holder):
        self.shape = (length, 1)
        self.holder = holder

    def __getitem__(self, key):
        if isinstance(key, tuple):
            sl, col = key
        else:
            sl, col = key, None
        return ("slice", sl.start, sl.stop, col, self.holder.get("row"))


class RecDict:
    def __init__(self, holder):
        self.items_, self.holder = [], holder

    def __setitem__(self, k, v):
        self.items_.append((k, v, self.holder.get("row")))


def read_rows(ck, mod, rmax):
    """_top_level_dir_properties._read on one file whose index satisfies the file invariant (C06): for every row the
    entry emitted is exactly the part of the row's block inside [start, end], keyed by its first sample; the
    length-only branch stores the length of the very same slice."""
    cls = mod._top_level_dir_properties
    fn = cls._read
    ck.add_function(pyload.source_info(mod, "_top_level_dir_properties._read"))
    S, E, LEN = z3.Int("start_sample"), z3.Int("end_sample"), z3.Int("rf_data_len")
    for R in range(1, rmax + 1):
        g = [z3.Int("g%d" % i) for i in range(R)]
        off = [z3.Int("off%d" % i) for i in range(R)]
        inv = [off[0] == 0, g[0] >= 0, off[R - 1] < LEN, S <= E, S >= 0]
        for i in range(R - 1):
            inv += [g[i] < g[i + 1], off[i] < off[i + 1], g[i + 1] - g[i] >= off[i + 1] - off[i]]
        for len_only, sub in ((False, None), (True, None), (False, 0)):
            holder = {}

            def mk():
                holder.clear()
                rows = [(pysym.SymInt(g[i]), pysym.SymInt(off[i])) for i in range(R)]
                fakefile = {"rf_data": FakeData(pysym.SymInt(LEN), holder), "rf_data_index": {Ellipsis: FakeIndex(rows, holder)}}

                class F(dict):
                    def close(self):
                        pass
                ff = F(fakefile)
                mod.h5py = types.SimpleNamespace(File=lambda *a, **k: ff)
                mod.os = types.SimpleNamespace(path=os.path, access=lambda *a: True, R_OK=os.R_OK)
                self_ = types.SimpleNamespace(access_mode="local", top_level_dir="/top", channel_name="ch", _cachedFilename=None,
                                              _cachedFile=None, rdcc_nbytes=1000)
                d = RecDict(holder)
                return (self_, pysym.SymInt(S), pysym.SymInt(E), ["sub/rf@1.000.h5"], d), dict(len_only=len_only, sub_channel=sub), d
            import h5py as real_h5py
            try:
                outs = pysym.explore(fn, mk, inv, max_paths=3000)
            finally:
                mod.h5py = real_h5py
                mod.os = os
            tag = "rows=%d len_only=%s sub_channel=%s" % (R, len_only, sub)
            for oc in outs:
                func = "digital_rf_hdf5._top_level_dir_properties._read"
                if oc.kind != "return":
                    ck.add([Obl("read.total", func, 0, oc.pc, z3.BoolVal(False), kind="post", meta={"shape": tag})])
                    continue
                d = oc.extra
                byrow = {}
                dup = False
                for k, v, row in d.items_:
                    if row in byrow:
                        dup = True
                    byrow[row] = (k, v)
                ck.struct("read.one_entry_per_row", not dup, "%s: a row produced more than one entry" % tag, {"shape": tag})
                goals = []
                for i in range(R):
                    end_i = off[i + 1] if i + 1 < R else LEN
                    lo = off[i] + z3.If(S > g[i], S - g[i], 0)
                    hi_cand = off[i] + (E - g[i]) + 1
                    hi = z3.If(hi_cand < end_i, hi_cand, end_i)
                    nonempty = lo < hi
                    if i in byrow:
                        k, v = byrow[i]
                        if len_only:
                            goals.append(z3.And(nonempty, pysym.Zt(k) == g[i] + (lo - off[i]), pysym.Zt(v) == hi - lo))
                        else:
                            ok_shape = isinstance(v, tuple) and v[0] == "slice" and v[3] == sub
                            if not ok_shape:
                                goals.append(z3.BoolVal(False))
                            else:
                                goals.append(z3.And(nonempty, pysym.Zt(k) == g[i] + (lo - off[i]), pysym.Zt(v[1]) == lo, pysym.Zt(v[2]) == hi))
                    else:
                        goals.append(z3.Not(nonempty))
                lab = "read.row" if not len_only else "read.lenonly_same"
                if sub is not None:
                    lab = "read.subchannel"
                ck.add([Obl(lab, func, 0, oc.pc, z3.And(goals), kind="post", meta={"shape": tag})])
                # keys of the entries of one file are distinct (they are dict keys)
                ks = [pysym.Zt(k) for k, v, r in d.items_]
                if len(ks) > 1:
                    ck.add([Obl("read.keys_distinct", func, 0, oc.pc, z3.Distinct(ks), kind="post", meta={"shape": tag})])
            ck.add(pysym.obligations_of(outs, "digital_rf_hdf5._read"))
    for o in ck.obls:
        if o.label.startswith("read."):
            o.bounded = "<= %d index rows per file (all values symbolic)" % rmax


def combine(ck, mod, nmax):
    """DigitalRFReader._combine_blocks (length form): maximal runs of the union, ascending; merges iff key == previous end"""
    fn = mod.DigitalRFReader._combine_blocks
    ck.add_function(pyload.source_info(mod, "DigitalRFReader._combine_blocks"))
    func = "digital_rf_hdf5.DigitalRFReader._combine_blocks"
    for n in range(0, nmax + 1):
        ks = [z3.Int("k%d" % i) for i in range(n)]
        ls = [z3.Int("len%d" % i) for i in range(n)]
        # entries of different files/rows never overlap (FileInv + window disjointness) ; given in arbitrary order
        hy = [l >= 1 for l in ls] + [k >= 0 for k in ks]
        for i in range(n):
            for j in range(i + 1, n):
                hy.append(z3.Or(ks[i] + ls[i] <= ks[j], ks[j] + ls[j] <= ks[i]))

        def mk():
            d = {pysym.SymInt(ks[i]): pysym.SymInt(ls[i]) for i in range(n)}
            return (None, d), dict(len_only=True), None
        outs = pysym.explore(fn, mk, hy, max_paths=3000)
        for oc in outs:
            if oc.kind != "return":
                ck.add([Obl("combine.total", func, 0, oc.pc, z3.BoolVal(False), kind="post", meta={"n": n})])
                continue
            res = list(oc.value.items())
            goals = []
            # ascending, non-touching (maximal), lengths positive
            for (a, la), (b, lb) in zip(res, res[1:]):
                goals.append(pysym.Zt(a) + pysym.Zt(la) < pysym.Zt(b))
            # same point set: every input interval lies inside exactly one output interval and total length is preserved
            if n:
                goals.append(z3.Sum([pysym.Zt(l) for _, l in res]) == z3.Sum(ls))
                for i in range(n):
                    goals.append(z3.Or([z3.And(pysym.Zt(a) <= ks[i], ks[i] + ls[i] <= pysym.Zt(a) + pysym.Zt(la)) for a, la in res]))
            else:
                goals.append(z3.BoolVal(len(res) == 0))
            o = Obl("combine.runs", func, 0, oc.pc, z3.And(goals) if goals else z3.BoolVal(True), kind="post", meta={"n": n})
            o.bounded = "<= %d entries (all values symbolic)" % nmax
            ck.add([o])
        ck.add(pysym.obligations_of(outs, func))


def replay_reader(o, model):
    r = replay_py.run_driver("reader_history.py", {"seed": 11, "channels": 120, "queries": 25, "max_failures": 1})
    if r["failures"]:
        f = r["failures"][0]
        return True, "reader on a channel written by the real writer: %s\n  case: %s" % (f["what"], str(f.get("case"))[:500]), f
    return False, "no deviation of the reader from the model on %d queries" % r["cases"], None


def run(tier, seed, replay=None):
    ck = harness.Check("C08", tier, seed, level="other")
    mod = pyload.module("digital_rf_hdf5")
    read_rows(ck, mod, 3 if tier == "thorough" else 2)
    combine(ck, mod, 3)
    from checks import bounds_common
    bounds_common.add_bounds(ck, mod, tier, "C08")
    ck.replayers["bounds."] = replay_reader
    from checks import reader_common
    reader_common.wiring(ck, mod)
    reader_common.vector_raw(ck, mod)
    reader_common.read_cache_contract(ck, pyload.module("digital_rf_hdf5", symbolic=False))
    reader_common.vector_conversion(ck, pyload.module("digital_rf_hdf5", symbolic=False))
    ck.replayers["reader."] = replay_reader
    from checks import filelist_common
    filelist_common.file_list_contract(ck, mod, ((1, 1000), (1, 500), (2, 1000), (3, 1000), (4, 2000)) if tier == "thorough" else ((1, 1000), (1, 500), (2, 1000)))
    ck.replayers["filelist."] = replay_reader
    for nm in ("DigitalRFReader.read", "DigitalRFReader.get_continuous_blocks", "DigitalRFReader.read_vector_raw", "DigitalRFReader._get_file_list",
               "DigitalRFReader.get_bounds", "_top_level_dir_properties._get_bounds"):
        ck.add_function(pyload.source_info(mod, nm))
    ck.replayers["read."] = replay_reader
    ck.replayers["combine."] = replay_reader
    ck.discharge()
    nch = 1500 if tier == "thorough" else 150
    r = replay_py.run_driver("reader_history.py", {"seed": seed, "channels": nch, "queries": 25, "max_failures": 3}, timeout=3000)
    ck.bounded_runs.append(("bounded.reader_vs_model", "%d channels written by the real writer (7 rates incl. 1e6/3, 25e6/3, 1e8/7 Hz; gapped/continuous; 1-3 subchannels) x 25 queries on file/block/gap edges: read, get_continuous_blocks, split/merge, subchannel, bounds, read_vector_raw" % nch,
                            r["cases"], r["failures"]))
    ck.trust({"h5py slicing / numpy": "assumed (rf_data[a:b] returns rows a..b-1; concatenate preserves order)", "sorted(dict.items())": "executed (CPython)"})
    ck.assumptions += ["every file satisfies the per-file index invariant (proved for the writer in C06)",
                       "_get_file_list: contract checked for enumerated cadence pairs and queries of at most one subdirectory period (sample indices and rate symbolic), other cadences by the bounded differential; read / get_continuous_blocks / read_vector_raw are verified against the contracts of their callees; get_bounds: file edges, directory scan and merge are under contract, list_drf.ilsdrf's ordering is assumed there (C14)"]
    ck.extra["explanation"] = "row arithmetic of _read and the merge of _combine_blocks: path-complete symbolic execution of the real methods with symbolic index rows / block keys; whole-reader coherence: bounded differential against an exact model"
    return ck
