"""list_drf._yield_matching_files under contract (C14): the real generator runs on symbolic subdirectory / file times over
bounded directory shapes.  The name->time conversions (regex groups, datetime arithmetic) are replaced by carriers of the
symbolic time (assumption: the conversion is exact and monotone; the grammar itself is enumerated in C14.grammar);
_decorate_drf_files is used by contract (it decorates exactly the matching names of the listed subdirectory) and its body is
checked separately on the real regexes."""
import os, types, itertools, datetime as real_datetime
import z3
from dvc.core import *
from dvc import pysym
from checks import pyload


class _M:
    def __init__(self, t):
        self.t = t

    def group(self, name):
        return self.t if name == "year" else 0


class _SubdirRE:
    def __init__(self, table):
        self.table = table

    def match(self, d):
        return _M(self.table[d]) if d in self.table else None


class _DT:
    def __init__(self, t):
        self.t = t

    def __sub__(self, other):
        return self.t


def _fake_datetime():
    return types.SimpleNamespace(datetime=lambda year, **kw: _DT(year), timezone=real_datetime.timezone, timedelta=real_datetime.timedelta)


def yield_contract(ck, ld, kmax, fmax, skip=None):
    fn = ld._yield_matching_files
    ck.add_function(pyload.source_info(ld, "_yield_matching_files"))
    func = "list_drf._yield_matching_files"
    S, E = z3.Int("starttime"), z3.Int("endtime")
    real = {k: ld.__dict__[k] for k in ("_RE_SUBDIR", "datetime", "_decorate_drf_files", "os")}
    nruns = 0
    shapes = []
    for k in range(0, kmax + 1):
        for counts in itertools.product(range(0, fmax + 1), repeat=k):
            shapes.append(counts)
    for counts in shapes:
        if skip is not None and skip(counts):
            continue
        k = len(counts)
        subdirs = ["sub%d" % j for j in range(k)]
        D = {subdirs[j]: z3.Int("D%d" % j) for j in range(k)}
        files = {}
        for j in range(k):
            files[subdirs[j]] = [("f%d_%d.h5" % (j, i), z3.Int("t%d_%d" % (j, i))) for i in range(counts[j])]
        # layout invariant (C04): subdirectory times ascend strictly; a file lies in the subdirectory period that holds its time
        inv = [D[subdirs[0]] >= 0] if k else []
        for j in range(k - 1):
            inv.append(D[subdirs[j]] < D[subdirs[j + 1]])
        for j in range(k):
            for nm, t in files[subdirs[j]]:
                inv.append(t >= D[subdirs[j]])
                if j + 1 < k:
                    inv.append(t < D[subdirs[j + 1]])
        vanish_opts = [()] + ([(subdirs[0],)] if k else []) + ([(subdirs[-1],)] if k > 1 else [])
        for dmd, has_s, has_e, reverse, vanished in itertools.product((False, True), (False, True), (False, True), (False, True), vanish_opts):
            hyp = list(inv) + ([S <= E] if has_s and has_e else []) + ([S >= 0] if has_s else []) + ([E >= 0] if has_e else [])
            props = ["dmd_properties.h5"] if dmd else ["drf_properties.h5"]
            listed = []

            def mk():
                del listed[:]
                ld._RE_SUBDIR = _SubdirRE({d: pysym.SymInt(D[d]) for d in subdirs})
                ld.datetime = _fake_datetime()

                def listdir(p):
                    listed.append(p)
                    d = os.path.basename(p)
                    if d in vanished:
                        raise OSError("gone")
                    return [nm for nm, t in files[d]]

                def decorate(subdir, filenames, file_regex):
                    d = os.path.basename(subdir)
                    tab = dict(files[d])
                    return [(pysym.SymInt(tab[nm]), os.path.join(subdir, nm)) for nm in filenames]
                ld.os = types.SimpleNamespace(listdir=listdir, path=os.path)
                ld._decorate_drf_files = decorate
                # directory order as os.walk hands it over: arbitrary; give it reversed to exercise the sort
                dirs = list(reversed(subdirs)) + ["other"]
                return ("/top/ch", dirs, props, True, True), dict(starttime=pysym.SymInt(S) if has_s else None, endtime=pysym.SymInt(E) if has_e else None, reverse=reverse), dirs

            def runner(*a, **kw):
                return list(fn(*a, **kw))
            try:
                outs = pysym.explore(runner, mk, hyp, max_paths=6000)
            finally:
                for kk, v in real.items():
                    ld.__dict__[kk] = v
            nruns += 1
            tag = "files/subdir=%s %s start=%s end=%s reverse=%s vanished=%s" % (list(counts), "dmd" if dmd else "drf", has_s, has_e, reverse, list(vanished))
            allf = [(t, os.path.join("/top/ch", d, nm)) for d in subdirs if d not in vanished for nm, t in files[d]]
            for oc in outs:
                meta = {"shape": tag}
                if oc.kind != "return":
                    ck.add([Obl("yield.total", func, 0, oc.pc, z3.BoolVal(False), kind="post", meta=meta)])
                    continue
                out = oc.value
                ck.struct("yield.leaves_other_dirs_for_the_walk", oc.extra == ["other"], "%s: dirs after the call %s" % (tag, oc.extra), {"attr": tag})
                ck.struct("yield.each_once_and_only_listed_files", len(set(out)) == len(out) and all(any(p == q for _, q in allf) for p in out),
                          "%s: yielded %s" % (tag, out), {"attr": tag})
                tof = {p: t for t, p in allf}
                if not (len(set(out)) == len(out) and all(p in tof for p in out)):
                    continue
                inwin = lambda t: z3.And(t >= S if has_s else True, t <= E if has_e else True)
                before = lambda t: (t < S) if has_s else z3.BoolVal(False)
                goals = []
                extras = []
                for t, p in allf:
                    if p in out:
                        latest_before = z3.And(before(t), z3.And([z3.Or(z3.Not(before(t2)), t2 <= t) for t2, _ in allf]))
                        goals.append(z3.Or(inwin(t), latest_before if (dmd and has_s) else z3.BoolVal(False)))
                        extras.append(z3.If(z3.Not(inwin(t)), 1, 0))
                    else:
                        goals.append(z3.Not(inwin(t)))
                if extras:
                    goals.append(z3.Sum(extras) <= 1)
                # the look-back file is demanded on trees that hold still; when a subdirectory vanishes under the listing the property
                # only asks that the listing does not fail (and stays sound), so the clause is not demanded there
                if dmd and has_s and allf and not vanished:
                    need = z3.And(z3.Or([before(t) for t, _ in allf]), z3.And([t != S for t, _ in allf]))
                    have = z3.Or([before(tof[p]) for p in out]) if out else z3.BoolVal(False)
                    goals.append(z3.Implies(need, have))
                ck.add([Obl("yield.window_exact", func, 0, oc.pc, z3.And(goals) if goals else z3.BoolVal(True), kind="post", meta=meta)])
                og = []
                for a, b in zip(out, out[1:]):
                    ta, tb = tof[a], tof[b]
                    if not reverse:
                        og.append(z3.Or(ta < tb, z3.And(ta == tb, z3.BoolVal(a < b))))
                    else:
                        og.append(z3.Or(ta > tb, z3.And(ta == tb, z3.BoolVal(a > b))))
                if og:
                    ck.add([Obl("yield.time_order", func, 0, oc.pc, z3.And(og), kind="post", meta=meta)])
            ck.add(pysym.obligations_of(outs, func))
    for o in ck.obls:
        if (o.label.startswith("yield.") or o.func == func) and not o.bounded:
            o.bounded = "<= %d timestamped subdirectories x <= %d files each (all times symbolic), first/last subdirectory possibly vanished" % (kmax, fmax)
    ck.extra["yield_shapes"] = ck.extra.get("yield_shapes", 0) + nruns
    ck.assumptions += ["_yield_matching_files: subdirectory-name and file-name to time conversions are carried symbolically (exact, monotone conversion assumed); "
                       "files lie in the subdirectory period of their time (layout, C04)"]


def decorate_contract(ck, ld):
    """_decorate_drf_files on the real regexes: exactly the matching names, time = secs*1000+frac ms, path = subdir/name (enumerated)"""
    ck.add_function(pyload.source_info(ld, "_decorate_drf_files"))
    import re
    names = ["rf@1474491360.000.h5", "rf@1474491360.999.h5", "metadata@1474491360.h5", "tmp.rf@1474491360.000.h5", "tmp.metadata@1474491360.h5",
             "rf@12.5.h5", "rf@.000.h5", "x@0.001.h5", "drf_properties.h5", "dmd_properties.h5", "rf@5.000.h5.bak", "a@b@7.010.h5", "@3.000.h5"]
    bad = []
    n = 0
    for rx, kind in ((ld._RE_DRFFILE, "drf"), (ld._RE_DMDFILE, "dmd"), (ld._RE_FILE, "any")):
        for r in range(0, 3):
            for combo in itertools.combinations(names, r):
                n += 1
                got = ld._decorate_drf_files("/c/s", list(combo), rx)
                want = []
                for nm in combo:
                    if nm.startswith("tmp."):
                        continue
                    m1 = re.fullmatch(r"(.+?)@([0-9]+)\.([0-9]{3})\.h5", nm)
                    m2 = re.fullmatch(r"(.+?)@([0-9]+)\.h5", nm)
                    if m1 and kind in ("drf", "any"):
                        want.append((real_datetime.timedelta(seconds=int(m1.group(2)), milliseconds=int(m1.group(3))), "/c/s/" + nm))
                    elif m2 and kind in ("dmd", "any"):
                        want.append((real_datetime.timedelta(seconds=int(m2.group(2))), "/c/s/" + nm))
                # which names are decorated, with which time and path; the order is the caller's business (it sorts)
                if sorted(got) != sorted(want):
                    bad.append((combo, kind, got, want))
    ck.enumerations.append(("decorate.matches", n, len(bad), bad[:2]))
    ck.struct("decorate.matches", not bad, "_decorate_drf_files deviates from its contract on %s" % (bad[:2],), {"no_input": False})


# ---------------------------------------------------------------------------------------------------------------------
def walk_contract(ck, ld):
    """ilsdrf against the contract of _yield_matching_files (modular) on virtual trees: top-down walk in sorted (reversed) directory
    order, channel = directory holding a properties file, its property files first and according to their own flags (None = follow the
    data flag), one call of the channel lister per channel iff a data kind is requested with exactly the query's arguments, timestamped
    subdirectories never descended, recursive=False stops below the start directory."""
    import datetime as _dt
    real = {k: ld.__dict__[k] for k in ("os", "_yield_matching_files")}
    trees = {
        "nested": {"": (["a", "b", "2017-01-01T00-00-00"], ["junk.txt"]),
                   "a": (["2017-01-01T00-00-00", "metadata", "z"], ["drf_properties.h5"]),
                   "a/2017-01-01T00-00-00": ([], ["rf@1483228800.000.h5"]),
                   "a/metadata": (["2017-01-01T00-00-00"], ["dmd_properties.h5"]),
                   "a/metadata/2017-01-01T00-00-00": ([], ["metadata@1483228800.h5"]),
                   "a/z": ([], ["note.txt"]),
                   "b": (["2017-01-01T00-00-00"], ["drf_properties.h5", "dmd_properties.h5"]),
                   "b/2017-01-01T00-00-00": ([], ["rf@1483228800.000.h5", "x@1483228800.h5"]),
                   "2017-01-01T00-00-00": ([], ["rf@1483228800.000.h5"])},
        "channel_root": {"": (["2017-01-01T00-00-00", "sub"], ["metadata.h5"]),
                         "2017-01-01T00-00-00": ([], ["rf@1483228800.000.h5"]),
                         "sub": ([], ["dmd_properties.h5"])},
        "empty": {"": ([], [])},
    }
    S0, E0 = _dt.datetime(2017, 1, 1, tzinfo=_dt.timezone.utc), _dt.datetime(2017, 1, 2, tzinfo=_dt.timezone.utc)
    import re
    is_ts = lambda d: re.fullmatch(r"\\d{4}-\\d{2}-\\d{2}T\\d{2}-\\d{2}-\\d{2}", d) is not None
    DRFP, DMDP = {"drf_properties.h5", "metadata.h5"}, {"dmd_properties.h5", "metadata.h5"}
    n = 0
    bad = []
    badw = []
    # window endpoints as the caller may give them: absent, naive (documented as UTC), aware in UTC and aware with other offsets -
    # the listing must receive the same INSTANT (as a timedelta since the epoch) in every case
    tz = lambda h, m=0: _dt.timezone(_dt.timedelta(hours=h, minutes=m))
    WINDOWS = (False, True, ("naive", None), ("+02:00", tz(2)), ("-05:00", tz(-5)), ("+05:30", tz(5, 30)), ("start_only", tz(-3)), ("end_only", tz(9)))
    for tname, tree in trees.items():
        top = "/T"
        for inc_drf, inc_dmd, pdrf, pdmd, recursive, reverse, window in itertools.product((True, False), (True, False), (None, True, False), (None, True, False),
                                                                                          (True, False), (False, True), WINDOWS):
            calls = []

            def walk(path):
                rel0 = os.path.relpath(path, top)
                rel0 = "" if rel0 == "." else rel0
                stack = [rel0]
                # faithful top-down os.walk: the caller may edit dirs in place
                def rec(rel):
                    dirs, files = tree.get(rel, ([], []))
                    dirs, files = list(dirs), list(files)
                    yield (os.path.join(top, rel) if rel else top, dirs, files)
                    for d_ in list(dirs):
                        for x in rec((rel + "/" + d_) if rel else d_):
                            yield x
                return rec(rel0)

            def lister(root, dirs, props, include_drf, include_dmd, starttime=None, endtime=None, reverse=False):
                calls.append((root, list(dirs), list(props), include_drf, include_dmd, starttime, endtime, reverse))
                dirs[:] = [d_ for d_ in dirs if not is_ts(d_)]        # contract: timestamped subdirectories are consumed
                yield os.path.join(root, "<data of %s>" % os.path.relpath(root, top))
            ld.os = types.SimpleNamespace(path=os.path, walk=walk, listdir=lambda p: [], sep=os.sep)
            ld._yield_matching_files = lister
            kw = dict(recursive=recursive, reverse=reverse, include_drf=inc_drf, include_dmd=inc_dmd, include_drf_properties=pdrf, include_dmd_properties=pdmd)
            want_win = (None, None)
            EP = _dt.datetime(1970, 1, 1, tzinfo=_dt.timezone.utc)
            if window is True:
                kw.update(starttime=S0, endtime=E0)
                want_win = (S0 - EP, E0 - EP)
            elif window:
                wname, wtz = window
                s_in = S0.replace(tzinfo=None) if wtz is None else S0.astimezone(wtz)
                e_in = E0.replace(tzinfo=None) if wtz is None else E0.astimezone(wtz)
                if wname == "start_only":
                    kw.update(starttime=s_in)
                    want_win = (S0 - EP, None)
                elif wname == "end_only":
                    kw.update(endtime=e_in)
                    want_win = (None, E0 - EP)
                else:
                    kw.update(starttime=s_in, endtime=e_in)
                    want_win = (S0 - EP, E0 - EP)
            try:
                try:
                    got = list(ld.ilsdrf(top, **kw))
                except Exception as e:
                    got = "raised %r" % (e,)
            finally:
                for kk, v in real.items():
                    ld.__dict__[kk] = v
            n += 1
            # expected, from the property
            eff_pdrf = inc_drf if pdrf is None else pdrf
            eff_pdmd = inc_dmd if pdmd is None else pdmd
            want, want_calls = [], []

            def visit(rel):
                dirs, files = tree.get(rel, ([], []))
                root = os.path.join(top, rel) if rel else top
                props = [f for f in files if f in DRFP | DMDP]
                descend = list(dirs)
                if props:
                    pl = sorted((os.path.join(root, f) for f in props if (f in DRFP and eff_pdrf) or (f in DMDP and eff_pdmd)), reverse=reverse)
                    want.extend(pl)
                    if inc_drf or inc_dmd:
                        want_calls.append((root, sorted(dirs), sorted(props), inc_drf, inc_dmd))
                        want.append(os.path.join(root, "<data of %s>" % os.path.relpath(root, top)))
                        descend = [d_ for d_ in dirs if not is_ts(d_)]
                if recursive:
                    for d_ in sorted(descend, reverse=reverse):
                        visit((rel + "/" + d_) if rel else d_)
            visit("")
            got_calls = [(c[0], sorted(c[1]), sorted(c[2]), c[3], c[4]) for c in calls]
            okw = all(c[7] is reverse for c in calls)
            okwin = all((c[5], c[6]) == want_win for c in calls)
            if not okwin:
                badw.append((tname, str(window), [(str(c[5]), str(c[6])) for c in calls][:1], (str(want_win[0]), str(want_win[1]))))
            if got != want or got_calls != want_calls or not okw:
                bad.append((tname, kw if not window else {k: v for k, v in kw.items() if k not in ("starttime", "endtime")}, got if got != want else "calls %s" % (got_calls,), want if got != want else want_calls))
    ck.enumerations.append(("walk.channels_properties_and_order", n, len(bad), bad[:2]))
    ck.struct("walk.channels_properties_and_order", not bad, "ilsdrf deviates from the listing contract in %d of %d cases, e.g. %s" % (len(bad), n, bad[:2]), {})
    ck.enumerations.append(("walk.window_is_the_instant", n, len(badw), badw[:2]))
    ck.struct("walk.window_is_the_instant", not badw, "ilsdrf hands the listing a different time window than the instants it was given in %d of %d cases, e.g. %s" % (len(badw), n, badw[:2]), {})
    ck.add_function(pyload.source_info(ld, "ilsdrf"))
