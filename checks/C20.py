"""C20 - live metadata visibility and non-destructive reading."""
import os, ast
from dvc.core import *
from dvc import harness
from checks import pyload, replay_py, C13

MUTATORS = {"os.remove", "os.unlink", "os.rmdir", "os.rename", "os.replace", "os.makedirs", "os.mkdir", "os.removedirs", "os.link", "os.symlink",
            "shutil.move", "shutil.copy", "shutil.copy2", "shutil.rmtree", "shutil.copyfile", "os.utime", "os.chmod", "os.truncate"}
WRITER_CLASSES = {"DigitalRFWriter", "DigitalMetadataWriter"}


def inventory(ck, pkg_mods):
    """sound may-analysis: every file-system mutation reachable (by name-based call graph) from a read API"""
    funcs = {}      # (module, class or None, name) -> ast node
    for mname, mod in pkg_mods.items():
        tree = ast.parse(open(mod.__file__).read())
        for node in tree.body:
            if isinstance(node, ast.FunctionDef):
                funcs[(mname, None, node.name)] = node
            elif isinstance(node, ast.ClassDef):
                for f in node.body:
                    if isinstance(f, ast.FunctionDef):
                        funcs[(mname, node.name, f.name)] = f
    by_name = {}
    for key in funcs:
        by_name.setdefault(key[2], []).append(key)

    def remote_only(node, target):
        """True if `target` lies inside an if-block that is only taken for remote (http://) access, where the reader works
        on a scratch copy under /tmp, outside the data tree"""
        def rec(n, guards):
            if n is target:
                return any(("http://" in g) or ("not self._local" in g) for g in guards)
            if isinstance(n, ast.If):
                t = ast.unparse(n.test)
                for ch in n.body:
                    r = rec(ch, guards + [t])
                    if r is not None:
                        return r
                for ch in n.orelse:
                    r = rec(ch, guards + ["not (" + t + ")"])
                    if r is not None:
                        return r
                return None
            for ch in ast.iter_child_nodes(n):
                r = rec(ch, guards)
                if r is not None:
                    return r
            return None
        return bool(rec(node, []))

    def context_of(node, target):
        """enclosing exception handlers / if-tests of a call (the condition under which the mutation happens)"""
        def rec(n, ctx):
            if n is target:
                return ctx
            for field, value in ast.iter_fields(n):
                items = value if isinstance(value, list) else [value]
                for ch in items:
                    if not isinstance(ch, ast.AST):
                        continue
                    c2 = ctx
                    if isinstance(n, ast.ExceptHandler) and field == "body":
                        c2 = ctx + ["except " + (ast.unparse(n.type) if n.type is not None else "<bare>")]
                    elif isinstance(n, ast.If) and field == "body":
                        c2 = ctx + ["if " + ast.unparse(n.test)]
                    elif isinstance(n, ast.If) and field == "orelse":
                        c2 = ctx + ["if not (" + ast.unparse(n.test) + ")"]
                    r = rec(ch, c2)
                    if r is not None:
                        return r
            return None
        return " / ".join(rec(node, []) or [])

    def callees(key):
        out = set()
        sites = []
        node = funcs[key]
        for c in ast.walk(node):
            if isinstance(c, ast.Call) and remote_only(node, c):
                continue
            if isinstance(c, ast.Call):
                f = c.func
                txt = ast.unparse(f)
                if txt in MUTATORS:
                    sites.append((txt, ast.unparse(c)[:80] + "  [when: " + context_of(node, c) + "]", c.lineno, context_of(node, c)))
                if txt in ("open", "io.open") and len(c.args) >= 2 and isinstance(c.args[1], ast.Constant) and any(ch in str(c.args[1].value) for ch in "wax+"):
                    sites.append(("open(write)", ast.unparse(c)[:80], c.lineno))
                if txt.endswith("h5py.File") or txt == "File":
                    mode = None
                    if len(c.args) >= 2 and isinstance(c.args[1], ast.Constant):
                        mode = c.args[1].value
                    for kw in c.keywords:
                        if kw.arg == "mode" and isinstance(kw.value, ast.Constant):
                            mode = kw.value.value
                    if mode != "r":
                        sites.append(("h5py.File(mode=%r)" % (mode,), ast.unparse(c)[:80], c.lineno))
                if isinstance(f, ast.Attribute) and f.attr in ("create_group", "create_dataset", "require_group", "require_dataset"):
                    sites.append(("h5py." + f.attr, ast.unparse(c)[:80], c.lineno))
                # call graph edges
                if isinstance(f, ast.Name):
                    for k in by_name.get(f.id, []):
                        if k[1] is None:
                            out.add(k)
                    # class instantiation -> __init__
                    for k in funcs:
                        if k[1] == f.id and k[2] == "__init__":
                            out.add(k)
                elif isinstance(f, ast.Attribute):
                    if isinstance(f.value, ast.Name) and f.value.id == "self" and key[1] is not None:
                        cands = [k for k in by_name.get(f.attr, []) if k[1] == key[1]]
                        if not cands:
                            cands = [k for k in by_name.get(f.attr, []) if k[1] is not None and k[1] not in WRITER_CLASSES]
                        out.update(cands)
                    else:
                        base = ast.unparse(f.value)
                        if base in pkg_mods or base.split(".")[-1] in pkg_mods:
                            out.update(k for k in by_name.get(f.attr, []) if k[0] == base.split(".")[-1])
                        else:
                            out.update(k for k in by_name.get(f.attr, []) if k[1] is not None and k[1] not in WRITER_CLASSES
                                       and f.attr.startswith("_") or (k[1] is not None and k[1] not in WRITER_CLASSES and f.attr in ("read", "get_bounds", "get_properties")))
            if isinstance(c, ast.Assign):
                for t in c.targets:
                    if isinstance(t, ast.Subscript) and isinstance(t.value, ast.Attribute) and t.value.attr == "attrs":
                        sites.append(("h5py attrs assignment", ast.unparse(c)[:80], c.lineno))
        return out, sites
    roots = []
    for key in funcs:
        m, cls, name = key
        if cls in ("DigitalRFReader", "DigitalMetadataReader", "_top_level_dir_properties", "_channel_properties") and (not name.startswith("_") or name == "__init__"):
            roots.append(key)
        if m == "list_drf" and cls is None and name in ("lsdrf", "ilsdrf"):
            roots.append(key)
    seen = {}
    stack = [(r, (r,)) for r in roots]
    found = {}
    while stack:
        key, chain = stack.pop()
        if key in seen:
            continue
        seen[key] = chain
        cs, sites = callees(key)
        for s in sites:
            found.setdefault((key, s[0], s[1], s[3] if len(s) > 3 else ""), chain)
        for c in cs:
            if c not in seen:
                stack.append((c, chain + (c,)))
    ck.extra["inventory_functions_reached"] = len(seen)
    ck.extra["inventory_roots"] = len(roots)
    if len(roots) < 20:
        raise EngineError("read-API roots not found (%d)" % len(roots))
    for (key, what, text, when), chain in sorted(found.items(), key=lambda x: str(x)):
        site = "%s@%s.%s" % (what, key[1] or key[0], key[2])
        ck.struct("ro.frame", False, "a file-system mutation is reachable from a read API: %s  [%s]  via %s" % (site, text, " -> ".join("%s.%s" % (k[1] or k[0], k[2]) for k in chain[:6])),
                  {"site": site, "when": when, "no_input": True})
    ck.struct("ro.frame.inventory_complete", True, "%d functions reachable from %d read-API roots scanned" % (len(seen), len(roots)))


def run(tier, seed, replay=None):
    ck = harness.Check("C20", tier, seed, level="other")
    mods = {"digital_metadata": pyload.module("digital_metadata", symbolic=False), "digital_rf_hdf5": pyload.module("digital_rf_hdf5", symbolic=False),
            "list_drf": pyload.module("list_drf", symbolic=False), "util": pyload.module("util", symbolic=False)}
    inventory(ck, mods)
    # vis.no_cache: the metadata reader's query methods do not read attributes assigned after __init__
    dm = mods["digital_metadata"]
    tree = ast.parse(open(dm.__file__).read())
    cls = [n for n in tree.body if isinstance(n, ast.ClassDef) and n.name == "DigitalMetadataReader"][0]
    assigned_late = set()
    init_assigned = set()
    for f in cls.body:
        if isinstance(f, ast.FunctionDef):
            for c in ast.walk(f):
                if isinstance(c, (ast.Assign, ast.AugAssign)):
                    for t in (c.targets if isinstance(c, ast.Assign) else [c.target]):
                        if isinstance(t, ast.Attribute) and isinstance(t.value, ast.Name) and t.value.id == "self":
                            (init_assigned if f.name in ("__init__", "__setstate__") else assigned_late).add(t.attr)
    # state written by a query method outlives the query: that is a cache of what is on disk, whether or not the constructor
    # initialised the attribute (also: self.x[...] = ..., self.x.append/update/add/setdefault/clear(...))
    for f in cls.body:
        if isinstance(f, ast.FunctionDef) and f.name not in ("__init__", "__setstate__"):
            for c in ast.walk(f):
                if isinstance(c, (ast.Assign, ast.AugAssign)):
                    for t in (c.targets if isinstance(c, ast.Assign) else [c.target]):
                        if isinstance(t, ast.Subscript) and isinstance(t.value, ast.Attribute) and isinstance(t.value.value, ast.Name) and t.value.value.id == "self":
                            assigned_late.add(t.value.attr + "[...]")
                if isinstance(c, ast.Call) and isinstance(c.func, ast.Attribute) and c.func.attr in ("append", "update", "add", "setdefault", "clear", "extend", "pop", "__setitem__") \
                        and isinstance(c.func.value, ast.Attribute) and isinstance(c.func.value.value, ast.Name) and c.func.value.value.id == "self":
                    assigned_late.add(c.func.value.attr + "." + c.func.attr)
                if isinstance(c, ast.Call) and isinstance(c.func, ast.Name) and c.func.id == "setattr":
                    assigned_late.add("setattr(...)")
    ck.struct("vis.no_cache", not (assigned_late - {"_fields"}),
              "reader state written outside the constructor (a cache of what is on disk): %s" % sorted(assigned_late), {})
    for nm in ("DigitalMetadataReader.read", "DigitalMetadataReader.get_bounds", "DigitalMetadataReader.read_latest", "DigitalMetadataReader._add_metadata",
               "DigitalMetadataWriter._sample_group_generator"):
        ck.add_function(pyload.source_info(dm, nm))
    # vis.closed_on_return: the file is opened in a with-block inside the generator consumed by write
    gsrc = ast.unparse([f for f in [n for n in tree.body if isinstance(n, ast.ClassDef) and n.name == "DigitalMetadataWriter"][0].body
                        if isinstance(f, ast.FunctionDef) and f.name == "_sample_group_generator"][0])
    ck.struct("vis.closed_on_return", "with h5py.File(this_file, 'a') as f" in gsrc, "the writer must open each metadata file in a with block (closed before write returns)", {})
    from checks import dmd_common
    symdm = pyload.module("digital_metadata")
    dmd_common.bounds_and_latest(ck, symdm)
    dmd_common.read_wiring(ck, symdm, kmain=2, kff=1)
    dmd_common.writer_placement(ck, symdm, 2)
    ck.replayers["dmd."] = C13.replay_dmd
    ck.replayers["w.gen"] = C13.replay_dmd
    ck.replayers["ro."] = C13.replay_dmd
    ck.replayers["vis."] = C13.replay_dmd
    ck.discharge()
    n = 1200 if tier == "thorough" else 120
    r = replay_py.run_driver("dmd_history.py", {"seed": seed + 2, "channels": n, "queries": 8, "max_failures": 3}, timeout=3000)
    ck.bounded_runs.append(("bounded.visibility_and_readonly", "%d metadata channels: after every write call a new reader and a reader created before the first write report it (bounds, read(k,k), read_latest); the tree is hashed before/after every read" % n,
                            r["cases"], r["failures"]))
    r2 = replay_py.run_driver("reader_history.py", {"seed": seed + 3, "channels": 40 if tier != "thorough" else 300, "queries": 10, "max_failures": 2}, timeout=3000)
    ck.bounded_runs.append(("bounded.rf_reads", "RF reader queries (tree unchanged is implied by the inventory; values vs model)", r2["cases"], r2["failures"]))
    ck.assumptions += ["call graph resolved by name (self.x within the class, otherwise any non-writer class): an over-approximation of reachable effects; a reader never holds a writer object",
                       "h5py.File(..., 'r') does not modify the file"]
    ck.extra["explanation"] = "frame condition of the read APIs as an effect inventory over the name-based call graph (may-analysis, so 'no mutator reachable' is a proof); visibility: no reader-side cache, files closed before write returns, bounds scan and read_latest under contract; end-to-end by bounded differential"
    return ck
