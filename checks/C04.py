"""C04 - deterministic time-partitioned file layout."""
import os, random, shutil, subprocess, tempfile, ctypes
import z3
from dvc.core import *
from dvc import cfront, cext, harness
from contracts import c_time, c_layout, c_obj
from contracts.base import NS
from spec import timespec as T
from spec.timespec import floor_is, ceil_is, PS, multiple_of

REPO = cfront.REPO
CSRC = os.path.join(REPO, "c/lib/rf_write_hdf5.c")


def lemmas(ck):
    k, k2, n, d, S, F, t, t2, TT, x1, x2, y1, y2, c = z3.Ints("k k2 n d S F t t2 T x1 x2 y1 y2 c")
    dom = [k >= 0, n >= 1, d >= 1, S >= 1, F >= 1]
    in_file = lambda kk, tt: [tt >= 0, multiple_of(tt, F), tt * n <= 1000 * kk * d, 1000 * kk * d < (tt + F) * n]
    fst = lambda x, tt: c_layout.fstart_is(x, tt, n, d)
    # L-window: the index lies in the window of its file: fstart(t) <= k < fstart(t+F)
    ck.lemma("L-window", dom + in_file(k, t) + [fst(x1, t), fst(x2, t + F)], z3.And(x1 <= k, k < x2))
    ck.twin("L-window.without_file_ms", dom + [t >= 0, multiple_of(t, F), t * n <= 1000 * k * d, fst(x1, t), fst(x2, t + F)], k < x2)
    # converse: an index inside the window of file t has file time t (names are a function of the index)
    ck.lemma("L-window-conv", dom + [t >= 0, multiple_of(t, F), fst(x1, t), fst(x2, t + F), x1 <= k, k < x2],
             z3.And(t * n <= 1000 * k * d, 1000 * k * d < (t + F) * n))
    # window disjointness: two different file times never share an index
    ja, jb = z3.Ints("j_a j_b")
    wf = lambda tt, jj: [tt >= 0, tt == jj * F, jj >= 0, tt * n <= 1000 * k * d, 1000 * k * d < (tt + F) * n]
    ck.chain("L-disjoint", dom + wf(t, ja) + wf(t2, jb), [
        ("1.cancel_n", z3.And(t < t2 + F, t2 < t + F, F >= 1, t == ja * F, t2 == jb * F), True, []),
        ("2.mono_a", z3.Implies(ja >= jb + 1, ja * F >= (jb + 1) * F), False, ["1.cancel_n"]),
        ("3.mono_b", z3.Implies(jb >= ja + 1, jb * F >= (ja + 1) * F), False, ["1.cancel_n"]),
        ("", t == t2, False, ["1.cancel_n", "2.mono_a", "3.mono_b"]),
    ])
    # windows are monotone: later file, later window  (fstart is monotone in t)
    ck.lemma("L-fstart-mono", dom + [t >= 0, t2 >= t, fst(x1, t), fst(x2, t2)], x1 <= x2)
    # L-subdir: with the cadence rule a file lies in exactly one subdirectory: floor(t/(1000 S)) = floor(sec(k)/S)
    in_dir = lambda kk, TTT: [TTT >= 0, multiple_of(TTT, S), TTT * n <= kk * d, kk * d < (TTT + S) * n]
    j, cc, b = z3.Ints('j_w c_w b_w')
    rule = [1000 * S == cc * F, cc >= 1]
    in_file_w = [t >= 0, t == j * F, j >= 0, t * n <= 1000 * k * d, 1000 * k * d < (t + F) * n]
    in_dir_w = [TT >= 0, TT == b * S, b >= 0, TT * n <= k * d, k * d < (TT + S) * n]
    hy = dom + rule + in_file_w + in_dir_w
    ck.chain("L-subdir", hy, [
        ("0.pos", z3.And(F >= 1, S >= 1), True, []),
        ("1.cancel_n", z3.And(1000 * TT < t + F, t < 1000 * (TT + S)), True, []),
        ("2.witnesses", z3.And(t == j * F, 1000 * S == cc * F, TT == b * S, j >= 0, cc >= 1, b >= 0), True, []),
        ("3.dir_start_multiple", 1000 * TT == (b * cc) * F, False, ["2.witnesses"]),
        ("4.dir_end_multiple", 1000 * (TT + S) == ((b + 1) * cc) * F, False, ["2.witnesses"]),
        ("5.mono_a", z3.Implies(b * cc >= j + 1, (b * cc) * F >= (j + 1) * F), False, ["0.pos"]),
        ("6.mono_b", z3.Implies(b * cc <= j, (b * cc) * F <= j * F), False, ["0.pos"]),
        ("7.mono_c", z3.Implies(j >= (b + 1) * cc, j * F >= ((b + 1) * cc) * F), False, ["0.pos"]),
        ("8.mono_d", z3.Implies(j + 1 <= (b + 1) * cc, (j + 1) * F <= ((b + 1) * cc) * F), False, ["0.pos"]),
        ("", z3.And(1000 * TT <= t, t + F <= 1000 * (TT + S)), False,
         ["1.cancel_n", "2.witnesses", "3.dir_start_multiple", "4.dir_end_multiple", "5.mono_a", "6.mono_b", "7.mono_c", "8.mono_d"]),
    ])
    ck.twin("L-subdir.without_cadence_rule", dom + in_file_w + in_dir_w, t + F <= 1000 * (TT + S))


def build_overlay():
    d = tempfile.mkdtemp(prefix="dvc_c04_")
    p = subprocess.run([os.path.join(harness.VERIF, "tools/build_overlay.sh"), REPO, d], capture_output=True, text=True)
    if p.returncode != 0:
        shutil.rmtree(d, ignore_errors=True)
        raise Undecided("cannot build the current tree: " + (p.stderr or p.stdout)[:400])
    return d


REPLAY_SCRIPT = r'''
import sys, json, os, glob, numpy as np, h5py
sys.path.insert(0, sys.argv[1])
import digital_rf
n, d, S, F, start, gs, out = [int(x) for x in sys.argv[2:8]] + [sys.argv[8]]
w = digital_rf.DigitalRFWriter(out, np.int16, S, F, start, n, d, uuid_str="x", is_complex=False, is_continuous=False)
w.rf_write(np.arange(1, dtype=np.int16), gs)
w.close()
files = sorted(glob.glob(out + "/*/rf@*.h5"))
res = []
for f in files:
    with h5py.File(f, "r") as h:
        res.append({"path": os.path.relpath(f, out), "index": h["rf_data_index"][...].tolist(), "len": int(h["rf_data"].shape[0])})
print(json.dumps(res))
'''


def expected_path(k, n, d, S, F):
    import datetime
    t = T.fms(k, n, d, F)
    ds = T.dsec(k, n, d, S)
    dt = datetime.datetime(1970, 1, 1) + datetime.timedelta(seconds=ds)
    return "%s/rf@%d.%03d.h5" % (dt.strftime("%Y-%m-%dT%H-%M-%S"), t // 1000, t % 1000)


def replay_layout(o, model, tries=None):
    """one-sample write through the rebuilt library; compare the produced path with big-integer arithmetic"""
    g = lambda nm, dflt: model.get(nm, dflt) if isinstance(model.get(nm, dflt), int) else dflt
    cand = [(g("w.sample_rate_numerator", 1), g("w.sample_rate_denominator", 1), g("w.subdir_cadence_secs", 1),
             g("w.file_cadence_millisecs", 1000), g("w.global_start_sample", 0), g("global_sample", 0))]
    rnd = random.Random(4)
    for _ in range(60):
        n = rnd.choice([1, 3, 200, 1000, 10 ** 6, 999983, rnd.randrange(1, 10 ** 7)])
        d = rnd.choice([1, 3, 7, rnd.randrange(1, 1000)])
        F = rnd.choice([1, 7, 400, 1000, 3600000, rnd.randrange(1, 100000)])
        mult = rnd.choice([1, 2, 5, 60])
        # S*1000 % F == 0
        import math
        S = (F // math.gcd(F, 1000)) * mult
        tms = rnd.randrange(10 ** 11, 4 * 10 ** 12) // F * F + rnd.choice([0, 0, F - 1, F // 2])
        k = T.fstart(tms, n, d) + rnd.choice([0, 0, -1, 1])
        start = rnd.choice([0, k, k // 2])
        cand.append((n, d, S, F, start, max(0, k - start)))
    ov = build_overlay()
    out = []
    try:
        for (n, d, S, F, start, gs) in cand:
            k = gs + start
            if not (1 <= n < 2 ** 32 and 1 <= d <= 10 ** 9 and S >= 1 and F >= 1 and (S * 1000) % F == 0 and k * d < T.Y10K * n and k < 2 ** 63):
                continue
            tmp = tempfile.mkdtemp(prefix="dvc_c04w_")
            try:
                p = subprocess.run(["/venv/bin/python", "-c", REPLAY_SCRIPT, ov, str(n), str(d), str(S), str(F), str(start), str(gs), tmp],
                                   capture_output=True, text=True, timeout=120)
                want = expected_path(k, n, d, S, F)
                import json
                try:
                    res = json.loads(p.stdout.strip().splitlines()[-1])
                except Exception:
                    res = None
                inp = {"n": n, "d": d, "subdir_cadence_secs": S, "file_cadence_millisecs": F, "start": start, "index": gs}
                if res is None:
                    if p.returncode != 0 and "Error" in p.stderr:
                        return True, "one-sample write failed: %s (expected file %s)" % (p.stderr.strip().splitlines()[-1], want), inp
                    continue
                got = [r["path"] for r in res]
                if got != [want]:
                    return True, "sample %d at %d/%d Hz, cadences %d s/%d ms stored in %s, exact arithmetic says %s" % (k, n, d, S, F, got, want), inp
                if res[0]["index"][0][0] != k:
                    return True, "index row %s for sample %d" % (res[0]["index"], k), inp
            finally:
                shutil.rmtree(tmp, ignore_errors=True)
    finally:
        shutil.rmtree(ov, ignore_errors=True)
    return False, "no failing layout among %d replayed one-sample writes" % len(cand), None


def run(tier, seed, replay=None):
    ck = harness.Check("C04", tier, seed, level="proof")
    tu = cfront.TU(CSRC)
    X = cext.make_externals()
    ck.trust({k: v for k, v in cext.TRUSTED.items() if k in ("gmtime", "snprintf", "fprintf/printf/fflush/H5Eprint", "strcpy/strcat/strlen/strcmp/strstr")})
    contracts = {c.name: c.handler() for c in (c_time.FLOOR, c_time.CEIL, c_time.TIME_PARTS)}
    it = cfront.CInterp(tu, contracts=contracts, externals=X)
    c_layout.verify_body(it, ck.struct)
    ck.add(it.obls)
    for nm in ("digital_rf_get_subdir_file",):
        ck.add_function(tu.func_info(nm))
    # the names are exact only if the callees keep their contracts: their bodies are proved here as well (same proof units as C03), so that
    # a change to a time helper that moves a file or directory name is reported under this property too
    from checks import C03 as _c03
    for c in (c_time.FLOOR, c_time.CEIL, c_time.TIME_PARTS):
        itc = cfront.CInterp(tu, contracts={}, externals=X)
        c.verify_body(itc)
        ck.add(itc.obls)
        ck.add_function(tu.func_info(c.name))
    ck.replayers["digital_rf_get_time_parts"] = _c03.replay_parts
    ck.replayers["digital_rf_get_timestamp_floor"] = _c03.replay_floor
    ck.replayers["nowrap.digital_rf_get_timestamp_floor"] = _c03.replay_floor
    ck.replayers["digital_rf_get_sample_ceil"] = _c03.replay_ceil
    ck.replayers["nowrap.digital_rf_get_sample_ceil"] = _c03.replay_ceil
    lemmas(ck)
    # reachability of the contract's precondition, at a file boundary
    k, n, d, S, F, st0 = z3.Ints("global_sample w.sample_rate_numerator w.sample_rate_denominator w.subdir_cadence_secs w.file_cadence_millisecs w.global_start_sample")
    a = NS(global_sample=k, start=st0, k=k + st0, n=n, d=d, S=S, F=F)
    ck.cover("subdir_file.requires.reachable", [c for _, c in c_layout.requires(a)] + [n == 1000000, d == 3, F == 400, S == 3600, k + st0 > 10 ** 14])
    init_cadence_rule(ck, tu, X)
    from checks import pyinit
    pyinit.add_py_cadence_rule(ck)
    from checks import step_common
    step_common.add_step_obligations(ck, tu, X, want=("C04",))
    ck.replayers["digital_rf_get_subdir_file"] = replay_layout
    ck.replayers["nowrap.digital_rf_get_subdir_file"] = replay_layout
    ck.replayers["pre."] = replay_layout
    ck.discharge()
    ck.assumptions += [
        "snprintf renders %lu/%03lu/%04i/%02i as decimal; gmtime = proleptic Gregorian UTC breakdown; strcmp = string equality",
        "decimal renderings of different (second, millisecond<1000) pairs differ (injectivity of the file-name format)",
        "the callee contracts used here are those proved in check C03 (modular verification)",
    ]
    return ck


def init_cadence_rule(ck, tu, X):
    """digital_rf_create_write_hdf5: every path that returns a writer object has passed the cadence checks."""
    name = "digital_rf_create_write_hdf5"
    if name not in tu.funcs:
        raise Undecided(name + " not found")
    ck.add_function(tu.func_info(name))
    fn = tu.funcs[name]
    params = [c for c in fn["inner"] if c.get("kind") == "ParmVarDecl"]
    st = State()
    args = []
    sym = {}
    it = None
    stubs = {}

    def stub(nm, ret):
        def h(interp, s, a, n):
            s = s.copy()
            r = ret() if callable(ret) else ret
            s.trace.append(Effect(nm, list(a), r, n["_line"], interp.func))
            return [(s, r)]
        return h
    stubs["digital_rf_check_hdf5_directory"] = stub("digital_rf_check_hdf5_directory", lambda: fresh_int("chk"))
    stubs["digital_rf_close_write_hdf5"] = stub("digital_rf_close_write_hdf5", 0)
    stubs["digital_rf_set_fill_value"] = stub("digital_rf_set_fill_value", lambda: fresh_int("fill"))
    stubs["digital_rf_handle_metadata"] = stub("digital_rf_handle_metadata", lambda: fresh_int("hm"))
    it = cfront.CInterp(tu, contracts=stubs, externals=X)
    for p in params:
        t = cfront.qtype(p)
        ct = it.ctype(t)
        if ct.kind == "ptr":
            oid = st.new_obj(SStr((("sym", p["name"].upper()),)), p["name"])
            args.append(Ptr(oid, 0))
        elif ct.kind == "int":
            v = z3.Int(p["name"])
            lo, hi = ct.rng()
            st.pc.append(z3.And(v >= lo, v <= hi))
            sym[p["name"]] = v
            args.append(v)
        else:
            raise Undecided("parameter %s of %s" % (p["name"], name))
    need = ["subdir_cadence_secs", "file_cadence_millisecs"]
    if any(x not in sym for x in need):
        raise Undecided("cadence parameters of %s renamed" % name)
    S, F = sym["subdir_cadence_secs"], sym["file_cadence_millisecs"]
    # domain of the property: cadences below 2^32 (subdir_cadence_secs*1000 is computed in 64 bits by the C code)
    st.pc.append(z3.And(S < (1 << 32), F < (1 << 32)))
    paths = it.run_function(name, st, args, {"overflow": "wrap"})
    nsucc = 0
    for s, rv in paths:
        if isinstance(rv, Ptr) and rv.obj is not None:
            nsucc += 1
            it.func = name
            it.oblige(s, "init.cadence_rule.c", z3.And(S >= 1, F >= 1, multiple_of(S * 1000, F)), fn["_line"], kind="post", meta={"syms": sym})
            w = s.mem[rv.obj]
            ok = isinstance(w, StructVal) and all(z3.eq(Z(w.fields[f]), sym[f]) for f in need if not is_conc(w.fields.get(f)))
            ck.struct("init.cadences_stored.c", ok, "the writer record must hold the validated cadences unchanged")
    if nsucc == 0:
        raise EngineError("no successful path through %s" % name)
    ck.add(it.obls)
