"""C11 - writer-side effect-order obligations (checks/fs_common.py)."""
import os
from dvc.core import *
from dvc import cfront, cext, harness
from checks import fs_common

CSRC = os.path.join(cfront.REPO, "c/lib/rf_write_hdf5.c")


def run(tier, seed, replay=None):
    ck = harness.Check("C11", tier, seed, level="other")
    tu = cfront.TU(CSRC)
    X = cext.make_externals()
    fs_common.add_fs_obligations(ck, tu, X, "C11")
    from checks import replay_py, pyload, bounds_common
    symmod = pyload.module("digital_rf_hdf5")
    bounds_common.merge_bounds(ck, symmod, 4 if tier == "thorough" else 3)
    bounds_common.dir_bounds(ck, symmod, 3)
    from checks import reader_common
    reader_common.reader_init_merge(ck, pyload.module("digital_rf_hdf5", symbolic=False))
    reader_common.wiring(ck, symmod, ndirs=3)
    from checks import pyinit
    pyinit.add_py_init_params(ck)
    ck.replayers["py.init."] = pyinit.replay_init_params
    ck.replayers["reader."] = replay_sessions
    ck.replayers["bounds."] = replay_sessions
    ck.replayers["session."] = replay_sessions
    ck.replayers["fs."] = replay_sessions
    ck.discharge()
    n = 600 if tier == "thorough" else 60
    r = replay_py.run_driver("session_history.py", {"seed": seed, "cases": n, "max_failures": 3}, timeout=3000)
    ck.bounded_runs.append(("bounded.sessions_and_directories", "%d scenarios: 2-4 sessions over 1-3 top-level directories (one file period never in two directories), "
                            "single-parameter mismatches refused with the directory byte-identical, writes into finalized periods refused with the writer still usable, "
                            "reader over all directories = union of the sessions (bounds, blocks, values)" % n, r["cases"], r["failures"]))
    mod = pyload.module("digital_rf_hdf5", symbolic=False)
    for nm in ("DigitalRFReader.__init__", "DigitalRFReader.get_bounds", "DigitalRFReader.read"):
        ck.add_function(pyload.source_info(mod, nm))
    ck.assumptions += ["reader-side union over sessions / top-level directories: the merge of the bounds is under contract; read / get_continuous_blocks over several directories are covered by the bounded differential only (labelled bounded)"]
    ck.extra["explanation"] = "effect-order / frame obligations evaluated at every file-system and HDF5 call site on every explored path of the writer (loop-free functions: complete path enumeration)"
    return ck


def replay_sessions(o, model):
    from checks import replay_py
    r = replay_py.run_driver("session_history.py", {"seed": 3, "cases": 120, "max_failures": 1}, timeout=1500)
    if r["failures"]:
        f = r["failures"][0]
        return True, "sessions on the real writer/reader: %s\n  case: %s" % (f["what"], str(f.get("case"))[:500]), f
    return False, "no deviation among %d session scenarios" % r["cases"], None
