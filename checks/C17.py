"""C17 - mirror fidelity, staged publication, no loss in move mode."""
import os, types, itertools
import z3
from dvc.core import *
from dvc import harness, pysym
from checks import pyload, replay_py

SRC, DST = "/srcroot", "/dstroot"
FILE = SRC + "/ch0/2017-01-01T00-00-00/rf@1483228800.000.h5"
DEST = DST + "/ch0/2017-01-01T00-00-00/rf@1483228800.000.h5"
TMP = DST + "/ch0/2017-01-01T00-00-00/tmp.rf@1483228800.000.h5"


class World:
    """ghost file system for mirror_to_dest: every query result and every failure is a fresh symbolic boolean"""
    def __init__(self):
        self.trace = []
        self.n = 0

    def nd(self, name):
        self.n += 1
        return pysym.SymBool(z3.Bool("%s#%d" % (name, self.n)))

    def eff(self, name, *args, can_fail=True):
        if can_fail and self.nd("fails:" + name):
            self.trace.append((name + "!failed",) + args)
            raise OSError(name)
        self.trace.append((name,) + args)


def stubs(w):
    path = types.SimpleNamespace(
        abspath=os.path.abspath, relpath=os.path.relpath, join=os.path.join, split=os.path.split,
        exists=lambda p: (w.trace.append(("exists?", p)), w.nd("exists:" + p))[1],
        lexists=lambda p: (w.trace.append(("exists?", p)), w.nd("lexists:" + p))[1],
        isdir=lambda p: (w.trace.append(("isdir?", p)), w.nd("isdir:" + p))[1],
        islink=lambda p: (w.trace.append(("islink?", p)), w.nd("islink:" + p))[1],
        dirname=os.path.dirname, basename=os.path.basename, normpath=os.path.normpath,
        isfile=lambda p: (w.trace.append(("isfile?", p)), w.nd("isfile:" + p))[1])
    os_ = types.SimpleNamespace(path=path, makedirs=lambda p, *a, **k: w.eff("makedirs", p), rename=lambda a, b: w.eff("rename", a, b),
                                replace=lambda a, b: w.eff("rename", a, b),
                                remove=lambda p: w.eff("remove", p), unlink=lambda p: w.eff("remove", p),
                                rmdir=lambda p: w.eff("rmdir", p), sep=os.sep)
    filecmp = types.SimpleNamespace(cmp=lambda a, b: (w.trace.append(("cmp?", a, b)), w.nd("equal"))[1])
    return os_, filecmp


def mirror_effects(ck, mod):
    cls = mod.DigitalRFMirrorHandler
    ck.add_function(pyload.source_info(mod, "DigitalRFMirrorHandler.mirror_to_dest"))
    ck.add_function(pyload.source_info(mod, "DigitalRFMirrorHandler._get_dest_path"))
    fn = cls.mirror_to_dest
    holder = {}

    def mk():
        w = World()
        os_, fc = stubs(w)
        mod.os, mod.filecmp = os_, fc
        mod.sys = types.SimpleNamespace(stdout=types.SimpleNamespace(write=lambda s: None, flush=lambda: None))
        mod.traceback = types.SimpleNamespace(print_exc=lambda: None)
        self_ = types.SimpleNamespace(src=SRC, dest=DST, verbose=False, mirror_fun=lambda a, b: w.eff("mirror_fun", a, b))
        self_._get_dest_path = types.MethodType(cls._get_dest_path, self_)
        return (self_, FILE), {}, w
    import os as real_os, filecmp as real_fc, sys as real_sys, traceback as real_tb
    try:
        outs = pysym.explore(fn, mk, [], max_paths=2000)
    finally:
        mod.os, mod.filecmp, mod.sys, mod.traceback = real_os, real_fc, real_sys, real_tb
    n = 0
    for oc in outs:
        w = oc.extra
        tr = w.trace
        n += 1
        names = [t[0] for t in tr]
        tag = " -> ".join("%s%s" % (t[0], "" if len(t) < 2 else "(" + ",".join(os.path.basename(str(x)) for x in t[1:]) + ")") for t in tr)
        meta = {"trace": tag[:300]}
        ck.struct("m.never_raises", oc.kind == "return", "mirror_to_dest must swallow OSError of stale/vanished files; raised %r on %s" % (oc.value, tag), meta)
        writes_final = [t for t in tr if t[0] in ("mirror_fun", "mirror_fun!failed") and t[2] != TMP]
        ck.struct("m.stage_under_tmp", not writes_final, "the copy/move/link must target <destdir>/tmp.<name>, not %s" % [t[2] for t in writes_final], meta)
        ren = [i for i, t in enumerate(tr) if t[0] == "rename"]
        ok = True
        for i in ren:
            t = tr[i]
            ok = ok and t[1] == TMP and t[2] == DEST and i > 0 and tr[i - 1] == ("mirror_fun", FILE, TMP)
        ck.struct("m.stage_then_rename", ok, "rename(tmp, dest) only directly after a successful mirror_fun(src, tmp): %s" % tag, meta)
        # move mode: once mirror_fun(src,tmp) succeeded the only thing that may happen to tmp is rename(tmp,dest)
        if ("mirror_fun", FILE, TMP) in tr:
            i = tr.index(("mirror_fun", FILE, TMP))
            nxt = [t for t in tr[i + 1:] if t[0] not in ("exists?", "isfile?", "cmp?", "isdir?", "islink?")]
            ck.struct("m.move_never_lost", bool(nxt) and nxt[0][0] in ("rename", "rename!failed") and nxt[0][1:] == (TMP, DEST),
                      "after the staged transfer the next file-system operation must be rename(tmp, dest): %s" % tag, meta)
        # idempotence: destination present and equal -> nothing is written
        wrote = any(t[0].startswith("mirror_fun") or t[0].startswith("rename") for t in tr)
        cmp_i = [i for i, t in enumerate(tr) if t[0] == "cmp?"]
        if wrote:
            # must be justified: dest absent or different
            s = z3.Solver()
            s.add(oc.pc)
            ex = [z3.Bool(str(c)) for c in []]
            # the decision literals: find exists:DEST and equal
            lits = {str(d): d for d in _atoms(oc.pc)}
            ex_dest = [v for k_, v in lits.items() if k_.startswith("exists:" + DEST)]
            eq = [v for k_, v in lits.items() if k_.startswith("equal")]
            if ex_dest and eq:
                s.add(ex_dest[0], eq[0])
                ck.struct("m.idempotent", s.check() == z3.unsat, "an identical destination file must not be rewritten: %s" % tag, meta)
        # only directories of the source are removed, never files; nothing under the destination is removed
        bad = [t for t in tr if (t[0].startswith("rmdir") and not t[1].startswith(SRC)) or t[0].startswith("remove")]
        ck.struct("m.no_destination_removal", not bad,
                  "the mirror must never delete a file (a staged tmp.<name> may be the only copy of a moved file) nor a destination directory: %s" % bad, meta)
    ck.extra["mirror_paths"] = n
    if n < 8:
        raise EngineError("too few paths through mirror_to_dest (%d)" % n)


def _atoms(pc):
    out = []
    seen = set()
    def rec(e):
        if e.get_id() in seen:
            return
        seen.add(e.get_id())
        if z3.is_const(e) and z3.is_bool(e) and e.decl().kind() == z3.Z3_OP_UNINTERPRETED:
            out.append(e)
        for c in e.children():
            rec(c)
    for h in pc:
        rec(h)
    return out


def wiring(ck, mod):
    """DigitalRFMirror.__init__: handler set per method"""
    ck.add_function(pyload.source_info(mod, "DigitalRFMirror.__init__"))
    import shutil
    wd = mod.watchdog_drf

    class FakeWatcher:
        def __init__(self, *a, **k):
            self.scheduled = []

        def schedule(self, h, p, recursive=True):
            self.scheduled.append(h)
    real = wd.DirWatcher
    wd.DirWatcher = FakeWatcher
    try:
        for method, inc_drf, inc_dmd in itertools.product(("copy", "move", "link"), (True, False), (True, False)):
            if not inc_drf and not inc_dmd:
                continue
            m = mod.DigitalRFMirror("/tmp", "/tmp/x", method=method, include_drf=inc_drf, include_dmd=inc_dmd)
            hs = m.event_handlers
            tag = "method=%s include_drf=%s include_dmd=%s" % (method, inc_drf, inc_dmd)
            kinds = []
            for h in hs:
                pats = sorted(r.pattern for r in h.regexes)
                if isinstance(h, mod.DigitalRFMirrorHandler):
                    kinds.append(("mirror", "move" if h.mirror_fun is shutil.move else "copylike", tuple(pats)))
                else:
                    kinds.append(("ringbuffer", getattr(h, "count", None), tuple(pats)))
            ld = mod.list_drf
            def has(h, rx):
                return any(rx in r.pattern for r in h.regexes)
            ok = True
            copyh = [h for h in hs if isinstance(h, mod.DigitalRFMirrorHandler) and h.mirror_fun is not shutil.move]
            moveh = [h for h in hs if isinstance(h, mod.DigitalRFMirrorHandler) and h.mirror_fun is shutil.move]
            ringh = [h for h in hs if not isinstance(h, mod.DigitalRFMirrorHandler)]
            ok = ok and len(copyh) == 1
            if method == "move":
                ok = ok and len(moveh) == (1 if inc_drf else 0) and len(ringh) == (1 if inc_dmd else 0)
                if ringh:
                    ok = ok and getattr(ringh[0], "count", None) == 1 and not getattr(ringh[0], "dryrun", True)
            else:
                ok = ok and not moveh and not ringh
            ck.struct("m.wiring", ok, "%s: handlers %s" % (tag, kinds), {"attr": tag})
            if ringh and copyh:
                # events reach the handlers in list order: a metadata file must be copied before the count-1 ringbuffer may expire it
                ck.struct("m.wiring.copy_before_expiry", all(hs.index(copyh[0]) < hs.index(r_) for r_ in ringh),
                          "%s: handler order %s (the ringbuffer that deletes old metadata files from the source must come after the copying handler)" % (tag, [k_[0] for k_ in kinds]), {"attr": tag})
            # which paths does each handler accept?  (behavioural wiring check on the real dispatch filter)
            rf = "/tmp/ch/2017-01-01T00-00-00/rf@1483228800.000.h5"
            md = "/tmp/ch/metadata/2017-01-01T00-00-00/metadata@1483228800.h5"
            pr = "/tmp/ch/drf_properties.h5"
            pm = "/tmp/ch/metadata/dmd_properties.h5"
            def accepts(h, p):
                return any(r.match(p) for r in h.regexes)
            c = copyh[0] if copyh else None
            if c is not None:
                want = {rf: inc_drf and method != "move", md: inc_dmd, pr: inc_drf, pm: inc_dmd}
                got = {p: accepts(c, p) for p in want}
                ck.struct("m.wiring.copy_handler_selects", got == want, "%s: copy-like handler accepts %s, expected %s" % (tag, got, want), {"attr": tag})
            if moveh:
                want = {rf: True, md: False, pr: False, pm: False}
                got = {p: accepts(moveh[0], p) for p in want}
                ck.struct("m.wiring.move_handler_selects", got == want, "%s: move handler accepts %s (must move RF data only)" % (tag, got), {"attr": tag})
            if ringh:
                want = {rf: False, md: True, pr: False, pm: False}
                got = {p: accepts(ringh[0], p) for p in want}
                ck.struct("m.wiring.ringbuffer_selects", got == want, "%s: metadata ringbuffer accepts %s" % (tag, got), {"attr": tag})
    finally:
        wd.DirWatcher = real


def start_wiring(ck, mod):
    """DigitalRFMirror.start (modular): the files that already exist are taken from the listing (property files of the selected kinds
    always; data and metadata files of the window unless ignore_existing) and every one of them is handed to every handler with the
    time filter off - the listing has already applied the window, including the metadata file in force at the start time."""
    import types
    M = mod.DigitalRFMirror
    ck.add_function(pyload.source_info(mod, "DigitalRFMirror.start"))
    real = {k: mod.__dict__[k] for k in ("list_drf", "os", "print") if k in mod.__dict__}
    for ignore in (False, True):
        calls, disp = [], []

        def ilsdrf(path, **kw):
            calls.append((path, dict(kw)))
            if kw.get("include_drf") or kw.get("include_dmd"):
                return iter(["/s/ch/sub/rf@5.000.h5", "/s/ch/metadata/sub/metadata@1.h5"])
            return iter(["/s/ch/drf_properties.h5"])
        mod.list_drf = types.SimpleNamespace(ilsdrf=ilsdrf)
        mod.os = types.SimpleNamespace(path=types.SimpleNamespace(isdir=lambda p: True))
        mod.__dict__["print"] = lambda *a, **k: None

        def mkh(i):
            return types.SimpleNamespace(dispatch=lambda ev, match_time=True, i=i: disp.append((i, ev.src_path, type(ev).__name__, match_time)))
        self_ = types.SimpleNamespace(observer=types.SimpleNamespace(start=lambda: disp.append(("observer.start",))), method="copy", src="/s", dest="/d",
                                      include_drf=True, include_dmd=True, starttime="S", endtime="E", ignore_existing=ignore, event_handlers=[mkh(0), mkh(1)])
        try:
            try:
                M.start(self_)
                err = None
            except Exception as e:
                err = e
        finally:
            for k, v in real.items():
                mod.__dict__[k] = v
            if "print" not in real:
                mod.__dict__.pop("print", None)
        tag = "ignore_existing=%s" % ignore
        files = ["/s/ch/drf_properties.h5"] + ([] if ignore else ["/s/ch/sub/rf@5.000.h5", "/s/ch/metadata/sub/metadata@1.h5"])
        want = [("observer.start",)] + [(i, f, "FileCreatedEvent", False) for f in files for i in (0, 1)]
        ck.struct("m.start.existing_files_to_every_handler_unfiltered", err is None and disp == want, "%s: dispatched %s (error %r), contract %s" % (tag, disp, err, want), {"attr": tag})
        okl = len(calls) == (1 if ignore else 2) and calls[0][1].get("include_drf") is False and calls[0][1].get("include_dmd") is False \
            and calls[0][1].get("include_drf_properties") is True and calls[0][1].get("include_dmd_properties") is True
        if not ignore and len(calls) == 2:
            k = calls[1][1]
            okl = okl and k.get("starttime") == "S" and k.get("endtime") == "E" and k.get("include_drf") is True and k.get("include_dmd") is True \
                and k.get("include_drf_properties") is False and k.get("include_dmd_properties") is False
        ck.struct("m.start.lists_selected_kinds_and_window", okl, "%s: listing calls %s" % (tag, calls), {"attr": tag})


def replay_mirror(o, model):
    r = replay_py.run_driver("mirror_history.py", {"seed": 17, "cases": 40, "max_failures": 1})
    if r["failures"]:
        f = r["failures"][0]
        return True, "mirror on real files: %s" % f["what"], f
    return False, "no deviation in %d mirror histories" % r["cases"], None


def run(tier, seed, replay=None):
    ck = harness.Check("C17", tier, seed, level="other")
    mod = pyload.module("mirror", symbolic=False)
    mirror_effects(ck, mod)
    wiring(ck, mod)
    start_wiring(ck, mod)
    ck.replayers["m."] = replay_mirror
    ck.discharge() if ck.obls else None
    n = 150 if tier == "thorough" else 25
    r = replay_py.run_driver("mirror_history.py", {"seed": seed, "cases": n, "max_failures": 3}, timeout=3000)
    ck.bounded_runs.append(("bounded.mirror_histories", "%d recordings (RF + metadata, 2 channels) x methods copy/move/link x event histories with duplication, reordering and stale events, on real files" % n,
                            r["cases"], r["failures"]))
    ck.trust({"shutil.copy2/move, os.link, os.rename, filecmp.cmp": "assumed contracts (copy2/link produce a complete copy at the target or raise; move never has a state with neither source nor complete target; rename atomic)"})
    ck.assumptions += ["every file-system query (exists, isfile, cmp) may answer either way and every mutating call may fail with OSError, at every call site (symbolic booleans)",
                       "inotify event delivery is not modelled; the newest-metadata-stays claim is the C16 ringbuffer with count=1"]
    ck.extra["explanation"] = "effect-order contract of mirror_to_dest checked on every path of the real method under a nondeterministic ghost file system; handler wiring per method inspected on the real constructor"
    return ck
