"""DigitalRFReader._get_file_list under contract (C08, C01): the real static method runs on symbolic sample indices and a symbolic
rational rate (a fractions.Fraction subclass whose numerator / denominator are symbolic) for enumerated cadence pairs; range /
numpy.arange / compress are replaced by forking stand-ins, the rendered names are traced back to their terms through the display
log.  Contract (from the property, not from the code): the list holds, in ascending time order and without repetition, only file
starts of the cadence grid inside their subdirectory, among them the file of every sample in [sample0, sample1], and each listed
file's period meets the queried time span (so a one-sample query lists exactly one file)."""
import types, fractions, itertools, datetime as real_dt
import z3
from dvc.core import *
from dvc import pysym
from checks import pyload
from spec.timespec import floor_is


class SymFraction(fractions.Fraction):
    def __new__(cls, n, d):
        self = fractions.Fraction.__new__(cls, 1, 1)
        return self

    def __init__(self, n, d):
        self.__dict__["_n"], self.__dict__["_d"] = n, d

    numerator = property(lambda self: self.__dict__["_n"])
    denominator = property(lambda self: self.__dict__["_d"])


MAXIT = 6


def p_range(a, b=None, step=1):
    if b is None:
        a, b = 0, a
    if not (pysym.is_sym(a) or pysym.is_sym(b) or pysym.is_sym(step)):
        return range(a, b, step)

    def gen():
        cur, i = a, 0
        while cur < b:
            if i >= MAXIT:
                # a path this long is normally one kept by a timed-out feasibility query: cut it when the solver proves it infeasible
                from dvc import smt
                if not smt.quick_sat(pysym.Ctx.cur.pc(), 20000):
                    raise pysym.PathAbort()
                raise Undecided("symbolic range longer than %d" % MAXIT)
            yield cur
            cur = cur + step
            i += 1
    return gen()


class SVec:
    def __init__(self, xs):
        self.xs = list(xs)

    def __add__(self, o):
        return SVec([x + o for x in self.xs])

    def __sub__(self, o):
        return SVec([x - o for x in self.xs])

    def __ge__(self, o):
        return [x >= o for x in self.xs]

    def __le__(self, o):
        return [x <= o for x in self.xs]

    def __gt__(self, o):
        return [x > o for x in self.xs]

    def __lt__(self, o):
        return [x < o for x in self.xs]

    def __iter__(self):
        return iter(self.xs)


def fake_np():
    def arange(a, b, step):
        return SVec(list(p_range(a, b, step)))

    def logical_and(x, y):
        return [pysym.lift(z3.And(pysym.Bt(p), pysym.Bt(q))) if (pysym.is_sym(p) or pysym.is_sym(q)) else (p and q) for p, q in zip(x, y)]

    def compress(mask, vec):
        return [v for m, v in zip(mask, vec.xs) if m]
    return types.SimpleNamespace(arange=arange, logical_and=logical_and, compress=compress)


class _Sub(str):
    pass


class _Path:
    def __init__(self, sub, secs, ms):
        self.sub, self.secs, self.ms = sub, secs, ms


def file_list_contract(ck, mod, pairs=((1, 1000), (1, 500), (2, 1000), (3, 1000), (4, 2000))):
    R = mod.DigitalRFReader
    fn = R._get_file_list
    ck.add_function(pyload.source_info(mod, "DigitalRFReader._get_file_list"))
    func = "digital_rf_hdf5.DigitalRFReader._get_file_list"
    s0, s1, n, d, k = z3.Ints("sample0 sample1 n d k")
    real = {kk: mod.__dict__.get(kk) for kk in ("np", "datetime", "os", "range", "warnings")}
    nruns = 0
    for (S, F), single in itertools.product(pairs, (True, False)):
        # time span of the query: at most one subdirectory period beyond the first second (bounds the symbolic loops)
        t0, t1, m0, m1 = z3.Ints("t0 t1 m0 m1")
        hyp = [n >= 1, d >= 1, s0 >= 0, s0 <= s1, floor_is(t0, s0 * d, n), floor_is(t1, s1 * d, n), floor_is(m0, s0 * d * 1000, n), floor_is(m1, s1 * d * 1000, n),
               t1 - t0 <= S, m0 <= m1, t0 <= t1, m0 >= 1000 * t0, m0 < 1000 * t0 + 1000, m1 >= 1000 * t1, m1 < 1000 * t1 + 1000]
        if single:
            hyp.append(s1 == s0)

        def mk():
            rec = dict(paths=[])

            class DT:
                def __init__(self, t):
                    self.t = t

                def strftime(self, fmt):
                    mark()
                    s_ = _Sub("<subdir>")
                    s_.sym, s_.fmt = self.t, fmt
                    return s_

            def mark():
                rec["mark"] = len(pysym.Ctx.cur.__dict__.get("display_log", []))

            def join(sub, base):
                # the integers rendered into this name are the display-log entries since the previous name / subdirectory was produced
                log = pysym.Ctx.cur.__dict__.get("display_log", [])
                new = log[rec.get("mark", 0):]
                mark()
                mm = __import__("re").fullmatch(r"rf@(\d+)\.(\d{3})\.h5", base)
                secs = ms = None
                if mm:
                    a_, b_ = int(mm.group(1)), int(mm.group(2))
                    # %i renders the seconds first, then %03i the milliseconds; a concrete value leaves no log entry
                    if len(new) == 2:
                        secs, ms = new[0], new[1]
                    elif len(new) == 1:
                        secs, ms = new[0], (z3.IntVal(b_), b_)
                    elif len(new) == 0:
                        secs, ms = (z3.IntVal(a_), a_), (z3.IntVal(b_), b_)
                p = _Path(sub, secs, ms)
                p.base = base
                rec["paths"].append(p)
                return p
            mod.np = fake_np()
            mod.datetime = types.SimpleNamespace(datetime=types.SimpleNamespace(fromtimestamp=lambda t, tz=None: DT(t)), timezone=real_dt.timezone)
            mod.os = types.SimpleNamespace(path=types.SimpleNamespace(join=join))
            mod.__dict__["range"] = p_range
            mod.warnings = types.SimpleNamespace(warn=lambda *a, **k_: None)
            fr = SymFraction(pysym.SymInt(n), pysym.SymInt(d))
            return (pysym.SymInt(s0), pysym.SymInt(s0 if single else s1), fr, S, F), {}, rec
        try:
            outs = pysym.explore(fn, mk, hyp, max_paths=3000)
        finally:
            for kk, v in real.items():
                if v is None:
                    mod.__dict__.pop(kk, None)
                else:
                    mod.__dict__[kk] = v
        nruns += 1
        tag = "subdir_cadence=%ds file_cadence=%dms %s" % (S, F, "one-sample query" if single else "range query")
        meta = {"shape": tag}
        for oc in outs:
            if oc.kind != "return":
                ck.add([Obl("filelist.total", func, 0, oc.pc, z3.BoolVal(False), kind="post", meta=meta)])
                continue
            lst = oc.value
            dbg = [(getattr(p, "base", None), p.secs, p.ms) for p in lst]
            okshape = all(isinstance(p, _Path) and isinstance(p.sub, _Sub) and p.sub.fmt == "%Y-%m-%dT%H-%M-%S" and p.secs is not None and p.ms is not None
                          and p.base == "rf@%d.%03d.h5" % (p.secs[1], p.ms[1]) for p in lst)
            ck.struct("filelist.names_are_subdir_slash_rf_at_secs_dot_ms", okshape, "%s: %s" % (tag, dbg[:2]), {"attr": tag})
            if not okshape:
                continue
            ft = [1000 * p.secs[0] + p.ms[0] for p in lst]          # file time in ms as rendered
            sub = [pysym.Zt(p.sub.sym) for p in lst]
            goals = []
            for i in range(len(lst)):
                jf, js = z3.Int("jf%d" % i), z3.Int("js%d" % i)
                goals += [p_ >= 0 for p_ in (ft[i],)] + [pysym.Zt(lst[i].ms[0]) >= 0, pysym.Zt(lst[i].ms[0]) < 1000]
                goals += [ft[i] % F == 0, sub[i] % S == 0, 1000 * sub[i] <= ft[i], ft[i] < 1000 * (sub[i] + S)]
                # the file's period meets the queried span [m0, m1]
                goals += [ft[i] + F - 1 >= m0, ft[i] <= m1]
            for a, b in zip(ft, ft[1:]):
                goals.append(a < b)
            ck.add([Obl("filelist.grid_ascending_and_within_span", func, 0, oc.pc, z3.And(goals) if goals else z3.BoolVal(True), kind="post", meta=meta)])
            # completeness: the file of any sample k of the query is listed (mk = ms(k) lies in [m0, m1] by monotonicity of the floor, lemma L-mono of C03)
            mk_, fk, qk = z3.Ints("mk fk qk")
            hk = [s0 <= k, k <= s1, floor_is(mk_, k * d * 1000, n), m0 <= mk_, mk_ <= m1, fk == qk * F, fk <= mk_, mk_ < fk + F]
            ck.add([Obl("filelist.holds_the_file_of_every_queried_sample", func, 0, oc.pc + hk, z3.Or([f_ == fk for f_ in ft]) if ft else z3.BoolVal(False), kind="post", meta=meta)])
            if single:
                # decided by the solver, not by evaluation: a path kept only because its feasibility check timed out must not raise an alarm
                ck.add([Obl("filelist.one_sample_one_file", func, 0, oc.pc, z3.BoolVal(len(lst) == 1), kind="post", meta=dict(meta, files=len(lst)))])
        ck.add(pysym.obligations_of(outs, func))
    # monotonicity of ms(.) used above
    a_, b_, ma, mb = z3.Ints("a b ma mb")
    ck.lemma("L-ms-mono", [n >= 1, d >= 1, a_ >= 0, a_ <= b_, floor_is(ma, a_ * d * 1000, n), floor_is(mb, b_ * d * 1000, n)], ma <= mb)
    for o in ck.obls:
        if o.label.startswith("filelist.") and not o.bounded:
            o.bounded = "cadence pairs %s, query spanning at most one subdirectory period (sample indices and rate symbolic)" % (list(pairs),)
    ck.extra["filelist_runs"] = nruns


def dmd_file_list_contract(ck, dm, pairs=((2, 1), (10, 5), (3, 1), (4, 2))):
    """DigitalMetadataReader._get_file_list, the whole method (loops included), on symbolic sample indices and rate for enumerated
    (subdir cadence, file cadence) pairs: the candidates are files of the cadence grid inside their subdirectory, ascending, each
    meeting the queried span of file times, and the file of every sample in [sample0, sample1] is among them; a one-sample query
    names exactly one file.  Every candidate is reported readable by the stand-in for os.access."""
    R = dm.DigitalMetadataReader
    fn = R._get_file_list
    ck.add_function(pyload.source_info(dm, "DigitalMetadataReader._get_file_list"))
    func = "digital_metadata.DigitalMetadataReader._get_file_list"
    s0, s1, n, d, k = z3.Ints("sample0 sample1 n d k")
    real = {kk: dm.__dict__.get(kk) for kk in ("np", "datetime", "os", "range")}
    for (S, C), single in itertools.product(pairs, (True, False)):
        t0, t1 = z3.Ints("t0 t1")
        hyp = [n >= 1, d >= 1, s0 >= 0, s0 <= s1, floor_is(t0, s0 * d, n), floor_is(t1, s1 * d, n), t0 <= t1, t1 - t0 <= S]
        if single:
            hyp.append(s1 == s0)

        def mk():
            rec = dict(paths=[])

            class DT:
                def __init__(self, t):
                    self.t = t

                def strftime(self, fmt):
                    rec["mark"] = len(pysym.Ctx.cur.__dict__.get("display_log", []))
                    s_ = _Sub("<subdir>")
                    s_.sym, s_.fmt = self.t, fmt
                    return s_

            def join(root, sub, base):
                log = pysym.Ctx.cur.__dict__.get("display_log", [])
                new = log[rec.get("mark", 0):]
                rec["mark"] = len(log)
                mm = __import__("re").fullmatch(r"md@(\d+)\.h5", base)
                ts = None
                if mm:
                    ts = new[0] if len(new) == 1 else ((z3.IntVal(int(mm.group(1))), int(mm.group(1))) if not new else None)
                p = _Path(sub, ts, None)
                p.base, p.root = base, root
                rec["paths"].append(p)
                return p
            dm.np = fake_np()
            dm.datetime = types.SimpleNamespace(datetime=types.SimpleNamespace(fromtimestamp=lambda t, tz=None: DT(t)), timezone=real_dt.timezone)
            dm.os = types.SimpleNamespace(path=types.SimpleNamespace(join=join), access=lambda p, m: True, R_OK=4)
            dm.__dict__["range"] = p_range
            self_ = types.SimpleNamespace(_sample_rate_numerator=pysym.SymInt(n), _sample_rate_denominator=pysym.SymInt(d), _file_cadence_secs=C,
                                          _subdir_cadence_secs=S, _file_name="md", _metadata_dir="/m")
            return (self_, pysym.SymInt(s0), pysym.SymInt(s0 if single else s1)), {}, rec
        try:
            outs = pysym.explore(fn, mk, hyp, max_paths=3000)
        finally:
            for kk, v in real.items():
                if v is None:
                    dm.__dict__.pop(kk, None)
                else:
                    dm.__dict__[kk] = v
        tag = "subdir_cadence=%ds file_cadence=%ds %s" % (S, C, "one-sample query" if single else "range query")
        meta = {"shape": tag}
        for oc in outs:
            if oc.kind != "return":
                ck.add([Obl("dmdlist.total", func, 0, oc.pc, z3.BoolVal(False), kind="post", meta=meta)])
                continue
            lst = oc.value
            okshape = all(isinstance(p, _Path) and isinstance(p.sub, _Sub) and p.sub.fmt == "%Y-%m-%dT%H-%M-%S" and p.secs is not None and p.root == "/m"
                          and p.base == "md@%d.h5" % p.secs[1] for p in lst)
            if not okshape:
                ck.add([Obl("dmdlist.names_are_subdir_slash_prefix_at_time", func, 0, oc.pc, z3.BoolVal(False), kind="post", meta=meta)])
                continue
            ft = [pysym.Zt(p.secs[0]) for p in lst]
            sub = [pysym.Zt(p.sub.sym) for p in lst]
            F0, F1 = z3.Ints("F0 F1")          # file times of the first and last sample of the query
            span = [F0 % C == 0, F0 <= t0, t0 < F0 + C, F1 % C == 0, F1 <= t1, t1 < F1 + C]
            goals = []
            for i in range(len(lst)):
                goals += [ft[i] % C == 0, sub[i] % S == 0, sub[i] <= ft[i], ft[i] < sub[i] + S, ft[i] >= F0, ft[i] <= F1]
            for a_, b_ in zip(ft, ft[1:]):
                goals.append(a_ < b_)
            ck.add([Obl("dmdlist.grid_ascending_and_within_span", func, 0, oc.pc + span, z3.And(goals) if goals else z3.BoolVal(True), kind="post", meta=meta)])
            tk, fk = z3.Ints("tk fk")
            hk = [s0 <= k, k <= s1, floor_is(tk, k * d, n), t0 <= tk, tk <= t1, fk % C == 0, fk <= tk, tk < fk + C]
            ck.add([Obl("dmdlist.holds_the_file_of_every_queried_sample", func, 0, oc.pc + hk, z3.Or([f_ == fk for f_ in ft]) if ft else z3.BoolVal(False), kind="post", meta=meta)])
            if single:
                ck.add([Obl("dmdlist.one_sample_one_file", func, 0, oc.pc, z3.BoolVal(len(lst) == 1), kind="post", meta=dict(meta, files=len(lst)))])
        ck.add(pysym.obligations_of(outs, func))
    for o in ck.obls:
        if o.label.startswith("dmdlist.") and not o.bounded:
            o.bounded = "cadence pairs %s (subdir s, file s), query spanning at most one subdirectory period (sample indices and rate symbolic)" % (list(pairs),)
