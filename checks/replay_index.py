"""Replay of create_rf_data_index obligations on the real function (C harness built from the current tree)."""
import os, subprocess, tempfile, shutil, random, re
from dvc import cfront, harness
from dvc.core import Undecided

REPO = cfront.REPO


def build():
    d = tempfile.mkdtemp(prefix="dvc_idx_")
    exe = os.path.join(d, "h")
    p = subprocess.run(["gcc", "-O1", "-I%s/c/include" % REPO, "-I/usr/include/hdf5/serial",
                        os.path.join(harness.VERIF, "replay_src/index_harness.c"), os.path.join(REPO, "c/lib/rf_write_hdf5.c"),
                        "-L/usr/lib/x86_64-linux-gnu/hdf5/serial", "-lhdf5", "-lm", "-o", exe], capture_output=True, text=True)
    if p.returncode != 0:
        shutil.rmtree(d, ignore_errors=True)
        raise Undecided("cannot build index harness from the current tree: " + p.stderr[:300])
    return d, exe


def G(g, b, p):
    r = g[0] + (p - b[0])
    for i in range(1, len(g)):
        if p >= b[i]:
            r = g[i] + (p - b[i])
    return r


def spec(c):
    """expected (T, rows) from the property, python ints"""
    g, b, V, w, E = c["g"], c["b"], c["V"], c["w"], c["next"] + c["left"]
    # T = number of p in [w, V) (a prefix) with G(p) < E, at least 1
    T = 0
    L = len(g)
    p = w
    while p < V:
        i = max(j for j in range(L) if b[j] <= p)
        seg_end = b[i + 1] if i + 1 < L else V
        # p' in [p, seg_end) with g[i] + (p' - b[i]) < E  <=>  p' < E - g[i] + b[i]
        lim = min(seg_end, E - g[i] + b[i])
        if lim <= p:
            break
        T += lim - p
        if lim < seg_end:
            break
        p = seg_end
    T = max(T, 1)
    rows = []
    if c["fe"] == 0 or c["chunk"]:
        rows.append((c["next"] + c["start"] - ((c["mx"] - c["left"]) if (c["cont"] and not c["chunk"]) else 0), 0))
    for i in range(1, len(g)):
        if w < b[i] < w + T:
            rows.append((g[i] + c["start"], b[i] - w))
    return T, rows


def run_case(exe, c):
    L = len(c["g"])
    inp = "%d %d %d %d %d %d %d %d %d %d %d\n%s\n%s\n" % (c["cursor"], c["chunk"], c["cont"], c["start"], c["w"], c["left"], c["mx"], c["V"], c["next"],
                                                 c["fe"], L, " ".join(map(str, c["g"])), " ".join(map(str, c["b"])))
    p = subprocess.run([exe], input=inp, capture_output=True, text=True, timeout=20)
    if p.returncode != 0:
        return {"crash": p.returncode, "stderr": p.stderr[-300:]}
    lines = p.stdout.strip().splitlines()
    gs = int(lines[0])
    rows_n, stw, isnull = [int(x) for x in lines[1].split()]
    rows = [tuple(int(x) for x in l.split()) for l in lines[2:]]
    return {"global_sample": gs, "rows_n": rows_n, "T": stw, "null": isnull, "rows": rows}


def wellformed(c):
    g, b = c["g"], c["b"]
    if not (b[0] == 0 and 0 <= c["w"] < c["V"] and c["left"] >= 1 and c["left"] <= c["mx"]):
        return False
    for i in range(len(g)):
        if not (b[i] < c["V"]):
            return False
        if i and not (b[i] > b[i - 1] and g[i] > g[i - 1] and b[i] - b[i - 1] <= g[i] - g[i - 1]):
            return False
    return c["next"] == G(g, b, c["w"]) and (c["w"] > 0 or g[0] >= c["cursor"]) and c["next"] + c["start"] - (c["mx"] - c["left"]) >= 0 \
        and (not (c["cont"] and not c["chunk"]) or len(g) == 1)


def model_case(model, L):
    def arr(txt):
        # z3 array model text: Store(Store(K(Int, d), i, v), j, u) ...
        txt = str(txt)
        m = re.search(r"K\(Int, (-?\d+)\)", txt)
        dflt = int(m.group(1)) if m else 0
        vals = {}
        for i, v in re.findall(r", (-?\d+), (-?\d+)\)", txt):
            vals[int(i)] = int(v)
        return [vals.get(i, dflt) for i in range(L)]
    gi = lambda k, d=0: model.get(k, d) if isinstance(model.get(k, d), int) else d
    return {"cursor": gi("w.global_index"), "chunk": gi("w.needs_chunking"), "cont": gi("w.is_continuous"), "start": gi("w.global_start_sample"),
            "w": gi("samples_written"), "left": gi("samples_left"), "mx": gi("max_samples_this_file"), "V": gi("vector_len"),
            "next": gi("next_global_sample"), "fe": gi("file_exists"), "g": arr(model.get("g", "")), "b": arr(model.get("b", ""))}


def random_case(rnd, L):
    b = [0]
    g = [rnd.randrange(0, 50)]
    for i in range(1, L):
        step = rnd.randrange(1, 6)
        b.append(b[-1] + step)
        g.append(g[-1] + step + rnd.choice([0, 0, 1, 3, 7]))
    V = b[-1] + rnd.randrange(1, 6)
    w = rnd.randrange(0, V)
    nxt = G(g, b, w)
    mx = rnd.randrange(1, 12)
    left = rnd.randrange(1, mx + 1)
    chunk = rnd.choice([0, 1])
    cont = rnd.choice([0, 1]) if L == 1 or chunk else 0
    start = rnd.choice([0, 100, 7]) + mx
    return {"cursor": rnd.choice([0, g[0]]) if w == 0 else 0, "chunk": chunk, "cont": cont, "start": start, "w": w, "left": left, "mx": mx,
            "V": V, "next": nxt, "fe": rnd.choice([0, 1]), "g": g, "b": b}


def check_case(exe, c):
    r = run_case(exe, c)
    if "crash" in r:
        return "the real function aborted (assert/crash): %r" % (r,), r
    T, rows = spec(c)
    problems = []
    if r["rows_n"] == -1:
        problems.append("well-formed input rejected")
    else:
        if r["T"] != T:
            problems.append("samples_to_write=%d, property requires %d" % (r["T"], T))
        if r["rows"] != [tuple(x) for x in rows] or r["rows_n"] != len(rows):
            problems.append("index rows %s, property requires %s" % (r["rows"], rows))
        if r["global_sample"] != c["next"]:
            problems.append("get_global_sample=%d, G(w)=%d" % (r["global_sample"], c["next"]))
    return ("; ".join(problems) if problems else None), r


def malformed_search(exe, n=3000):
    """calls that are malformed in exactly one place (any block, also far behind the end of the current file) must be rejected"""
    rnd = random.Random(11)
    for _ in range(n):
        L = rnd.choice([2, 3, 4, 5, 6])
        c = random_case(rnd, L)
        if not wellformed(c):
            continue
        c["left"] = rnd.choice([c["left"], 1, 1])          # short windows: most blocks lie beyond the end of the file
        j = rnd.randrange(1, L)
        kind = rnd.choice(["g_order", "b_order", "overlap", "beyond"])
        g, b = list(c["g"]), list(c["b"])
        if kind == "g_order":
            g[j] = g[j - 1] - rnd.choice([0, 1])
        elif kind == "b_order":
            b[j] = b[j - 1]
        elif kind == "overlap":
            g[j] = g[j - 1] + (b[j] - b[j - 1]) - 1
        else:
            b[j] = c["V"] + rnd.choice([0, 3])
        if (kind == "overlap" and g[j] <= g[j - 1]) or g[j] < 0:
            continue
        c2 = dict(c, g=g, b=b)
        # keep the part the harness derives from the arrays consistent: 'next' is G(w) of the (valid) prefix before the defect
        if c2["w"] >= c["b"][j]:
            continue
        r = run_case(exe, c2)
        if "crash" in r:
            return "the real function aborted on a malformed call %s: %r" % (c2, r), c2
        if r["rows_n"] != -1:
            return "malformed call accepted (%s at block %d of %d): %s -> rows_to_write=%d" % (kind, j, L, c2, r["rows_n"]), c2
    return None, None


def replay(o, model):
    L = o.meta.get("L", 2)
    d, exe = build()
    try:
        if "reject" in o.label:
            msg, c = malformed_search(exe)
            if msg:
                return True, "create_rf_data_index: " + msg, c
        c = model_case(model or {}, L)
        if wellformed(c):
            msg, r = check_case(exe, c)
            if msg:
                return True, "create_rf_data_index on %s: %s" % (c, msg), c
        # model of an internal obligation (or not directly replayable): bounded directed search on the real function
        rnd = random.Random(5)
        for _ in range(4000):
            c = random_case(rnd, rnd.choice([1, 2, 2, 3, 3, 4]))
            if not wellformed(c):
                continue
            msg, r = check_case(exe, c)
            if msg:
                return True, "create_rf_data_index on %s: %s" % (c, msg), c
        return False, "no failing input found by replaying the model or 4000 random well-formed calls", None
    finally:
        shutil.rmtree(d, ignore_errors=True)
