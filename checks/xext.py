"""python/lib/py_rf_write_hdf5.c: the extension entry points rf_write / rf_block_write (C01, C07, C19).
The numpy array objects are ghost records (data pointer, dims, strides of a C-contiguous array); PyArg_ParseTuple fills
the argument pointers; the C API is used by contract (its call is an effect whose arguments are checked)."""
import os, sysconfig
import numpy
import z3
from dvc.core import *
from dvc import cfront, cext, harness
from contracts import c_obj


class NpArr:
    def __init__(self, name, data_obj, dims, strides):
        self.name, self.data_obj, self.dims, self.strides = name, data_obj, dims, strides


def add_ext_obligations(ck, lmax=3, data_clauses=True):
    """data_clauses=False leaves out the clauses about the sample data pointer (properties about counters do not depend on them)"""
    path = os.path.join(cfront.REPO, "python/lib/py_rf_write_hdf5.c")
    tu = cfront.TU(path, extra_inc=["-I" + sysconfig.get_paths()["include"], "-I" + numpy.get_include()])
    X = cext.make_externals()
    for fname in ("_py_rf_write_hdf5_rf_block_write", "_py_rf_write_hdf5_rf_write"):
        if fname not in tu.funcs:
            raise Undecided(fname + " not found")
        ck.add_function(tu.func_info(fname))
    item, nsub, V = z3.Ints("itemsize num_subchannels vector_length")

    def post(it, s, label, goal, line, meta=None):
        """clause decided by evaluation when the symbolic run already reduced it to true, by the solvers otherwise"""
        goal = simp(goal) if isinstance(goal, z3.ExprRef) else goal
        if goal is True or goal is False:
            m = dict(meta or {})
            ck.struct(label, bool(goal), "clause evaluates to %s on a path of %s" % (goal, it.func), {"attr": " ".join("%s=%s" % kv for kv in sorted(m.items()))})
        else:
            it.oblige(s, label, goal, line, kind="post", meta=meta)

    def setup(L):
        """L: number of blocks, a Python int (unrolled variants) or a z3 integer (loop-invariant variant)"""
        st = State()
        # writer record lives in the C library's header: reuse the field list through the extension TU (it includes digital_rf.h)
        wptr, wf = c_obj.make_writer(cfront.CInterp(tu), st)
        g = z3.Array("g", z3.IntSort(), z3.IntSort())
        b = z3.Array("b", z3.IntSort(), z3.IntSort())
        data = st.new_obj(Opaque("numpy data"), "npdata")
        # the uint64 arrays are addressed by byte offset through PyArray_GETPTR1 (char* + i*stride): byte view of g / b
        k = z3.Int("k")
        junk = z3.Function("misaligned", z3.IntSort(), z3.IntSort())
        og = st.new_obj(ArrVal(z3.Lambda([k], z3.If(k % 8 == 0, z3.Select(g, k / 8), junk(k))), 8 * L), "gdata")
        ob = st.new_obj(ArrVal(z3.Lambda([k], z3.If(k % 8 == 0, z3.Select(b, k / 8), junk(k))), 8 * L), "bdata")
        arrs = {
            "num": NpArr("num", data, [V, nsub], [item * nsub, item]),
            "glob": NpArr("glob", og, [L], [8]),
            "blk": NpArr("blk", ob, [L], [8]),
        }
        objs = {}
        for k, a in arrs.items():
            objs[k] = st.new_obj(StructVal({"_np": k}), "PyArrayObject_" + k)
        caps = st.new_obj(StructVal({"_capsule": 1}), "capsule")
        st.assume(z3.And(item >= 1, item <= 32, nsub >= 1, nsub < (1 << 16), V >= 0, V < (1 << 40), wf["global_index"] >= 0, wf["global_index"] < (1 << 62), Z(wf["num_subchannels"]) == nsub))
        # precondition on the block array, discharged at the only call site by py.blocks.accept_only_wellformed
        st.assume(z3.And(z3.Select(b, 0) == 0, z3.Select(b, L - 1) < V))
        if isinstance(L, int):
            for i in range(L - 1):
                st.assume(z3.Select(b, i) < z3.Select(b, i + 1))
            for i in range(L):
                st.assume(z3.And(z3.Select(b, i) >= 0, z3.Select(b, i) < (1 << 40), z3.Select(g, i) >= 0, z3.Select(g, i) < (1 << 62)))
        else:
            jq = z3.Int("j!xb")
            st.assume(z3.And(L >= 1, L < (1 << 30)))
            st.assume(z3.ForAll([jq], z3.Implies(z3.And(jq >= 0, jq < L), block_pre(g, b, L, jq))))
        return st, wptr, wf, g, b, arrs, objs, caps, data, og, ob

    def externals_for(st0, wptr, arrs, objs, caps, parse_order, next_sample=None):
        E = dict(X)
        byobj = {objs[k]: arrs[k] for k in arrs}

        def parse(interp, st, args, n):
            st = st.copy()
            outs = args[2:]
            for dst, what in zip(outs, parse_order):
                if what == "capsule":
                    v = Ptr(caps, 0)
                elif what == "next_sample":
                    v = next_sample
                else:
                    v = Ptr(objs[what], 0)
                interp.store(st, (dst.obj, tuple(dst.path)), v, n["_line"])
            st.trace.append(Effect("PyArg_ParseTuple", [args[1]], 1, n["_line"], interp.func))
            return [(st, 1)]
        E["PyArg_ParseTuple"] = parse
        E["_PyArg_ParseTuple_SizeT"] = parse
        E["PyCapsule_GetPointer"] = lambda interp, st, args, n: [(st, wptr)]

        def arr_of(p):
            return byobj[p.obj]

        def np_data(interp, st, args, n):
            return [(st, Ptr(arr_of(args[0]).data_obj, 0))]
        E["PyArray_DATA"] = np_data
        E["PyArray_BYTES"] = np_data

        def np_dims(interp, st, args, n):
            st = st.copy()
            oid = st.new_obj(list(arr_of(args[0]).dims), "dims")
            return [(st, Ptr(oid, 0))]
        E["PyArray_DIMS"] = np_dims

        def np_strides(interp, st, args, n):
            st = st.copy()
            oid = st.new_obj(list(arr_of(args[0]).strides), "strides")
            return [(st, Ptr(oid, 0))]
        E["PyArray_STRIDES"] = np_strides
        E["PyErr_SetString"] = lambda interp, st, args, n: [(st, None)]

        def build(interp, st, args, n):
            st = st.copy()
            st.trace.append(Effect("Py_BuildValue", list(args), None, n["_line"], interp.func))
            oid = st.new_obj(StructVal({"_pyobj": 1}), "retobj")
            return [(st, Ptr(oid, 0))]
        E["Py_BuildValue"] = build
        E["_Py_BuildValue_SizeT"] = build

        def c_api(name):
            def h(interp, st, args, n):
                outs = []
                for fail in (False, True):
                    s = st.copy()
                    r = fresh_int(name + "_ret")
                    s.assume(r != 0 if fail else r == 0)
                    if not fail:
                        # success moves the writer's cursor (arbitrary new value: the C contract is proved elsewhere)
                        w = s.mem[wptr.obj]
                        s.mem[wptr.obj] = w.set("global_index", fresh_int("global_index_after"))
                    s.trace.append(Effect(name, list(args), r, n["_line"], interp.func, {"fail": fail}))
                    outs.append((s, r))
                return outs
            return h
        E["digital_rf_write_hdf5"] = c_api("digital_rf_write_hdf5")
        E["digital_rf_write_blocks_hdf5"] = c_api("digital_rf_write_blocks_hdf5")
        return E

    # ------------------------------------------------------------------ rf_block_write
    fname = "_py_rf_write_hdf5_rf_block_write"
    for L in range(1, lmax + 1):
        st, wptr, wf, g, b, arrs, objs, caps, data, og, ob = setup(L)
        E = externals_for(st, wptr, arrs, objs, caps, ["capsule", "num", "glob", "blk"])
        it = cfront.CInterp(tu, externals=E, config={"prune_full": False})
        selfp, argsp = Ptr(st.new_obj(Opaque("self"), "self"), 0), Ptr(st.new_obj(Opaque("args"), "args"), 0)
        paths = it.run_function(fname, st, [selfp, argsp], {"overflow": "wrap", "unroll": L + 1})
        fn = tu.funcs[fname]
        for s, rv in paths:
            it.func = fname
            calls = [e for e in s.trace if e.name.startswith("digital_rf_write")]
            ok_ret = isinstance(rv, Ptr) and rv.obj is not None
            meta = {"L": L}
            if not calls:
                continue
            last_failed = calls[-1].info.get("fail")
            # a failing C call -> NULL (exception); success -> an object built from the cursor
            if last_failed:
                post(it, s, "x.block_write.error_reported", B(it.isnull(rv)) if isinstance(rv, Ptr) else False, fn["_line"], meta=meta)
                continue
            ck.struct("x.block_write.returns_object", ok_ret, "successful rf_block_write must return the next sample", {"attr": "L=%d" % L})
            bv = [e for e in s.trace if e.name == "Py_BuildValue"]
            if bv:
                post(it, s, "x.block_write.returns_cursor", Z(bv[-1].args[1]) == Z(s.mem[wptr.obj].fields["global_index"]), fn["_line"], meta=meta)
            if calls[0].name == "digital_rf_write_blocks_hdf5":
                a = calls[0].args
                okp = len(calls) == 1 and isinstance(a[1], Ptr) and a[1].obj == og and isinstance(a[2], Ptr) and a[2].obj == ob \
                    and all(is_conc(p.idx) and p.idx == 0 for p in (a[1], a[2]))
                ck.struct("x.block_write.passes_index_arrays_unchanged", okp, "gapped path must hand the two index arrays to digital_rf_write_blocks_hdf5 unchanged", {"attr": "L=%d" % L})
                if data_clauses:
                    okd = isinstance(a[4], Ptr) and a[4].obj == data and is_conc(a[4].idx) and a[4].idx == 0
                    ck.struct("x.block_write.passes_data_unchanged", okd, "gapped path must hand the data array to digital_rf_write_blocks_hdf5 unchanged", {"attr": "L=%d" % L})
                post(it, s, "x.block_write.passes_lengths", z3.And(Z(a[3]) == L, Z(a[5]) == V), fn["_line"], meta=meta)
                post(it, s, "x.block_write.gapped_path_condition", z3.Or(Z(wf["is_continuous"]) == 0, L <= 1), fn["_line"], meta=meta)
            else:
                # continuous mode with several blocks: one digital_rf_write_hdf5 call per block, (g[i], data + b[i]*rowbytes, b[i+1]-b[i])
                post(it, s, "x.block_write.split_path_condition", z3.And(Z(wf["is_continuous"]) != 0, L > 1), fn["_line"], meta=meta)
                ck.struct("x.block_write.one_call_per_block", len(calls) == L, "expected %d per-block calls, got %d" % (L, len(calls)), {"attr": "L=%d" % L})
                for i, e in enumerate(calls[:L]):
                    a = e.args
                    nxt = z3.Select(b, i + 1) if i + 1 < L else V
                    post(it, s, "x.block_write.split_call_index_and_length", z3.And(Z(a[1]) == z3.Select(g, i), Z(a[3]) == nxt - z3.Select(b, i)),
                         fn["_line"], meta=dict(meta, block=i))
                    if data_clauses:
                        okd = isinstance(a[2], Ptr) and a[2].obj == data
                        ck.struct("x.block_write.split_data_base", okd, "per-block data pointer must point into the caller's array", {"attr": "L=%d i=%d" % (L, i)})
                        if okd:
                            post(it, s, "x.block_write.split_call_data", Z(a[2].idx) == z3.Select(b, i) * (item * nsub), fn["_line"], meta=dict(meta, block=i))
        for o in it.obls:
            o.bounded = "<= %d blocks per call (all values symbolic)" % lmax
        ck.add([o for o in it.obls if o.kind in ("post", "pre")])
    # ------------------------------------------------------------------ rf_block_write, any number of blocks (loop invariant)
    add_ext_split_unbounded(ck, tu, setup, externals_for, item, nsub, V, data_clauses, post)
    # ------------------------------------------------------------------ rf_write
    fname = "_py_rf_write_hdf5_rf_write"
    st, wptr, wf, g, b, arrs, objs, caps, data, og, ob = setup(1)
    ns = z3.Int("next_sample")
    E = externals_for(st, wptr, arrs, objs, caps, ["capsule", "num", "next_sample"], next_sample=ns)
    it = cfront.CInterp(tu, externals=E, config={"prune_full": False})
    selfp, argsp = Ptr(st.new_obj(Opaque("self"), "self"), 0), Ptr(st.new_obj(Opaque("args"), "args"), 0)
    fn = tu.funcs[fname]
    for s, rv in it.run_function(fname, st, [selfp, argsp], {"overflow": "wrap"}):
        it.func = fname
        calls = [e for e in s.trace if e.name == "digital_rf_write_hdf5"]
        if not calls:
            continue
        a = calls[0].args
        okd = isinstance(a[2], Ptr) and a[2].obj == data and is_conc(a[2].idx) and a[2].idx == 0
        ck.struct("x.write.calls_once", len(calls) == 1, "rf_write must call digital_rf_write_hdf5 once", {})
        if data_clauses:
            ck.struct("x.write.passes_data", okd, "rf_write must pass the array's data pointer to digital_rf_write_hdf5", {})
        post(it, s, "x.write.passes_index_and_length", z3.And(Z(a[1]) == ns, Z(a[3]) == V), fn["_line"])
        if calls[0].info.get("fail"):
            post(it, s, "x.write.error_reported", B(it.isnull(rv)) if isinstance(rv, Ptr) else False, fn["_line"])
        else:
            bv = [e for e in s.trace if e.name == "Py_BuildValue"]
            ck.struct("x.write.returns_object", bool(bv) and isinstance(rv, Ptr) and rv.obj is not None, "successful rf_write must return the next sample", {})
            if bv:
                post(it, s, "x.write.returns_cursor", Z(bv[-1].args[1]) == Z(s.mem[wptr.obj].fields["global_index"]), fn["_line"])
    ck.add([o for o in it.obls if o.kind in ("post", "pre")])
    ck.assumptions += ["numpy arrays handed to the extension are C-contiguous with shape (N, num_subchannels) (established by DigitalRFWriter._cast_input_array: checks/cast_common.py, enumerated over writer types and input layouts); "
                       "PyArg_ParseTuple / PyCapsule_GetPointer / Py_BuildValue transport values unchanged"]


def block_pre(g, b, L, j):
    """precondition on the two index arrays at position j (increasing block starts, value ranges); discharged at the only call site"""
    return z3.And(z3.Select(b, j) >= 0, z3.Select(b, j) < (1 << 40), z3.Select(g, j) >= 0, z3.Select(g, j) < (1 << 62),
                  z3.Implies(j + 1 < L, z3.Select(b, j) < z3.Select(b, j + 1)))


def add_ext_split_unbounded(ck, tu, setup, externals_for, item, nsub, V, data_clauses, post):
    """The continuous-mode split loop of rf_block_write for EVERY number of blocks: the loop is cut at its head with a sidecar
    invariant. An arbitrary iteration (i havocked, 0 <= i < L) must make exactly one digital_rf_write_hdf5 call with
    (g[i], data + b[i]*rowbytes, (i+1 == L ? V : b[i+1]) - b[i]) and advance i by exactly one; the loop starts at i = 0 with no call
    made and can only be left with i = L (all blocks handed over, in order) or by a failing call (NULL returned)."""
    from contracts.c_blocks import local, set_local
    fname = "_py_rf_write_hdf5_rf_block_write"
    fn = tu.funcs[fname]
    L = z3.Int("index_length")
    st, wptr, wf, g, b, arrs, objs, caps, data, og, ob = setup(L)
    E = externals_for(st, wptr, arrs, objs, caps, ["capsule", "num", "glob", "blk"])
    it = cfront.CInterp(tu, externals=E, config={"prune_full": False})
    iters = []

    def wcalls(s, since=0):
        return [e for e in s.trace[since:] if e.name.startswith("digital_rf_write")]

    def inv(itp, s):
        out = inv_clauses(itp, s)
        if s.ghost.get("inv_mode") == "prove":
            stage = "preserve" if "x_i0" in s.ghost else "init"
            for lab, c in out:
                # clauses the symbolic run already reduced to true are recorded (ledger), the others become solver obligations
                if simp(c) is True:
                    ck.struct("x.block_write.unbounded.loop.%s.%s" % (stage, lab), True, "", {})
        return out

    def inv_clauses(itp, s):
        i = Z(local(itp, s, fn, "i"))
        out = [("range", z3.And(i >= 0, i <= L))]
        if s.ghost.get("inv_mode") != "prove":
            return out
        if "x_i0" not in s.ghost:
            # establishment: the loop starts at the first block and nothing has been handed over yet
            out.append(("starts_at_first_block", z3.And(i == 0, z3.BoolVal(not wcalls(s)))))
            return out
        i0, since = s.ghost["x_i0"], s.ghost["x_trace0"]
        calls = wcalls(s, since)
        iters.append(len(calls))
        out.append(("advance_by_one", i == i0 + 1))
        out.append(("one_call_per_block", z3.BoolVal(len(calls) == 1 and calls[0].name == "digital_rf_write_hdf5" and not calls[0].info.get("fail"))))
        if len(calls) >= 1 and calls[0].name == "digital_rf_write_hdf5":
            a = calls[0].args
            nxt = z3.If(i0 + 1 == L, V, z3.Select(b, i0 + 1))
            out.append(("split_call_index_and_length", z3.And(Z(a[1]) == z3.Select(g, i0), Z(a[3]) == nxt - z3.Select(b, i0))))
            if data_clauses:
                okd = isinstance(a[2], Ptr) and a[2].obj == data
                out.append(("split_call_data", z3.And(z3.BoolVal(okd), Z(a[2].idx) == z3.Select(b, i0) * (item * nsub)) if okd else z3.BoolVal(False)))
        return out

    def havoc(itp, s):
        i0 = fresh_int("i")
        set_local(itp, s, fn, "i", i0)
        for nm in ("block_index", "next_block_index", "block_length", "next_sample", "result"):
            set_local(itp, s, fn, nm, fresh_int(nm))
        w = s.mem[wptr.obj]
        s.mem[wptr.obj] = w.set("global_index", fresh_int("global_index_havoc"))
        s.ghost["x_i0"], s.ghost["x_trace0"] = i0, len(s.trace)
        # ghost instantiation of the quantified precondition at the two positions the body reads
        s.assume(z3.Implies(z3.And(i0 >= 0, i0 < L), block_pre(g, b, L, i0)))
        s.assume(z3.Implies(z3.And(i0 + 1 >= 0, i0 + 1 < L), block_pre(g, b, L, i0 + 1)))

    selfp, argsp = Ptr(st.new_obj(Opaque("self"), "self"), 0), Ptr(st.new_obj(Opaque("args"), "args"), 0)
    n0 = len(it.obls)
    paths = it.run_function(fname, st, [selfp, argsp], {"overflow": "wrap", "unroll": 2, "loops": {1: {"invariant": inv, "havoc": havoc}}})
    for o in it.obls[n0:]:
        if o.kind == "inv":
            o.label = o.label.replace(fname + ".loop1", "x.block_write.unbounded.loop")
    seen_exit = seen_fail = False
    for s, rv in paths:
        it.func = fname
        if "x_i0" not in s.ghost:
            continue        # gapped path / parse failure: covered by the clauses above
        calls = wcalls(s, s.ghost["x_trace0"])
        if calls:
            # left the loop from inside the body: only after a failing call, reported as an exception
            seen_fail = True
            ck.struct("x.block_write.unbounded.early_exit_only_on_failure", len(calls) == 1 and bool(calls[0].info.get("fail")),
                      "the split loop may only be left early by a failing digital_rf_write_hdf5 call", {})
            post(it, s, "x.block_write.unbounded.error_reported", B(it.isnull(rv)) if isinstance(rv, Ptr) else False, fn["_line"])
            continue
        seen_exit = True
        bv = [e for e in s.trace if e.name == "Py_BuildValue"]
        ck.struct("x.block_write.unbounded.returns_object", bool(bv) and isinstance(rv, Ptr) and rv.obj is not None,
                  "after the last block rf_block_write must return the next sample", {})
        if bv:
            post(it, s, "x.block_write.unbounded.returns_cursor", Z(bv[-1].args[1]) == Z(s.mem[wptr.obj].fields["global_index"]), fn["_line"])
        post(it, s, "x.block_write.unbounded.split_path_condition", z3.And(Z(wf["is_continuous"]) != 0, L > 1), fn["_line"])
    ck.struct("x.block_write.unbounded.paths", seen_exit and seen_fail and bool(iters), "the loop-invariant run must reach the body, the failure exit and the normal exit", {})
    ck.add([o for o in it.obls if o.kind in ("post", "pre", "inv")])
