"""DigitalRFWriter._cast_input_array / _cast_sample_array (C01, C05): what reaches the extension is a C-contiguous array of shape
(N, num_subchannels) whose element is one complete sample of the writer's type with the caller's values unchanged (or the call is
refused with TypeError / ValueError) - the precondition under which checks/xext.py verifies the extension.  Enumerated over writer
types x input layouts on real writers built from the current tree (numpy's casting rules are executed, not modelled)."""
import os, shutil, tempfile, itertools
from dvc.core import *
from checks import pyload


def cast_contract(ck):
    import numpy as np
    pkg = pyload.package()
    mod = pyload.module("digital_rf_hdf5", symbolic=False)
    ck.add_function(pyload.source_info(mod, "DigitalRFWriter._cast_input_array"))
    ck.add_function(pyload.source_info(mod, "DigitalRFWriter._cast_sample_array"))
    base = tempfile.mkdtemp(prefix="dvc_cast_")
    bad = []
    n = 0
    try:
        cfgs = [("i2", False), (">i4", False), ("f4", False), ("u1", False), ("c8", True), ("i2", True), (np.dtype([("r", "<i2"), ("i", "<i2")]), True), (">f8", True)]
        for k, ((dt, cplx), nsub) in enumerate(itertools.product(cfgs, (1, 2))):
            d = os.path.join(base, "w%d" % k)
            os.makedirs(d)
            try:
                w = pkg.DigitalRFWriter(d, dt, 3600, 1000, 1500000000 * 100, 100, 1, uuid_str="u", is_complex=cplx, num_subchannels=nsub, marching_periods=False)
            except Exception as e:
                bad.append(("constructor", str(dt), cplx, nsub, repr(e)))
                continue
            try:
                N = 5
                item = w.structdtype if (w.is_complex and w.dtype.names is not None) else w.dtype
                real = w.realdtype
                rng = np.arange(1, N * nsub * 2 + 1)
                inputs = []
                if w.is_complex:
                    cvals = (rng[0::2] + 1j * rng[1::2]).reshape(N, nsub)
                    if np.issubdtype(real, np.floating):
                        inputs.append(("complex array", cvals.astype("c%d" % (real.itemsize * 2)), "ok"))
                        inputs.append(("complex array, Fortran order", np.asfortranarray(cvals.astype("c%d" % (real.itemsize * 2))), "ok"))
                    s_ = np.empty((N, nsub), dtype=np.dtype([("r", real), ("i", real)]))
                    s_["r"], s_["i"] = cvals.real, cvals.imag
                    inputs.append(("structured (r,i) array", s_, "ok"))
                    inter = np.empty((N, 2 * nsub), dtype=real)
                    inter[:, 0::2], inter[:, 1::2] = cvals.real, cvals.imag
                    if not np.issubdtype(real, np.floating) or True:
                        inputs.append(("interleaved real array", inter, "ok-interleaved"))
                    want_vals = cvals
                else:
                    rvals = rng[:N * nsub].reshape(N, nsub)
                    inputs.append(("matching array", rvals.astype(real), "ok"))
                    inputs.append(("strided view", np.repeat(rvals.astype(real), 2, axis=0)[::2], "ok"))
                    inputs.append(("Fortran order", np.asfortranarray(rvals.astype(real)), "ok"))
                    if nsub == 1:
                        inputs.append(("1-D array", rvals.astype(real).ravel(), "ok"))
                    else:
                        inputs.append(("1-D array for several subchannels", rvals.astype(real).ravel(), ValueError))
                    inputs.append(("wrong subchannel count", np.zeros((N, nsub + 1), dtype=real), ValueError))
                    inputs.append(("3-D array", np.zeros((N, nsub, 2), dtype=real), ValueError))
                    if real.kind in "iu":
                        inputs.append(("float input for an integer channel", rvals.astype("f8") + 0.5, TypeError))
                    want_vals = rvals
                for what, arr, expect in inputs:
                    n += 1
                    try:
                        out = w._cast_input_array(arr)
                    except Exception as e:
                        if expect in ("ok", "ok-interleaved") or not isinstance(e, expect):
                            bad.append((str(dt), cplx, nsub, what, "raised %r" % (e,)))
                        continue
                    if expect not in ("ok", "ok-interleaved"):
                        bad.append((str(dt), cplx, nsub, what, "accepted"))
                        continue
                    ok = out.flags["C_CONTIGUOUS"] and out.ndim == 2 and out.shape == (N, nsub) and out.dtype.itemsize == item.itemsize and out.dtype == (w.structdtype if out.dtype.names else w.dtype)
                    if ok:
                        if out.dtype.names:
                            got = out["r"].astype("f8") + 1j * out["i"].astype("f8")
                        else:
                            got = out
                        ok = bool(np.array_equal(np.asarray(got, dtype="c16" if w.is_complex else "f8"), np.asarray(want_vals, dtype="c16" if w.is_complex else "f8")))
                    if not ok:
                        bad.append((str(dt), cplx, nsub, what, "result dtype %s shape %s contiguous %s" % (out.dtype, out.shape, out.flags["C_CONTIGUOUS"])))
                # sample index arrays
                for what, arr, expect in (("python ints", [0, 5, 9], "ok"), ("int64", np.array([0, 5, 9], dtype="i8"), "ok"), ("strided uint64", np.arange(6, dtype="u8")[::2], "ok"),
                                          ("fractional", np.array([0.5, 1.0]), TypeError), ("negative", np.array([-1, 3]), TypeError), ("2-D", np.zeros((2, 2), dtype="u8"), ValueError)):
                    n += 1
                    try:
                        out = w._cast_sample_array(arr)
                    except Exception as e:
                        if expect == "ok" or not isinstance(e, expect):
                            bad.append((str(dt), "sample array", what, "raised %r" % (e,)))
                        continue
                    if expect != "ok":
                        bad.append((str(dt), "sample array", what, "accepted"))
                    elif not (out.dtype == np.uint64 and out.ndim == 1 and out.flags["C_CONTIGUOUS"] and [int(x) for x in out] == [int(x) for x in np.asarray(arr).ravel()]):
                        bad.append((str(dt), "sample array", what, "result %r" % (out,)))
            finally:
                w.close()
    finally:
        shutil.rmtree(base, ignore_errors=True)
    ck.enumerations.append(("py.cast.to_extension_layout", n, len(bad), bad[:3]))
    ck.struct("py.cast.to_extension_layout", not bad, "_cast_input_array/_cast_sample_array deviate from the extension's precondition: %s" % (bad[:4],), {"no_input": False})
