"""C01 - C write path part (shared proof units of checks/step_common.py)."""
import os
import z3
from dvc.core import *
from dvc import cfront, cext, harness
from checks import step_common, replay_index, replay_writer

REPO = cfront.REPO
CSRC = os.path.join(REPO, "c/lib/rf_write_hdf5.c")


def run(tier, seed, replay=None):
    ck = harness.Check("C01", tier, seed, level="other")
    tu = cfront.TU(CSRC)
    X = cext.make_externals()
    step_common.add_step_obligations(ck, tu, X, want=("C01",))
    extra(ck, tu, X, tier, seed)
    for pref in ("digital_rf_create_rf_data_index", "assert.digital_rf_create_rf_data_index", "nowrap.digital_rf_create_rf_data_index",
                 "bounds.digital_rf_create_rf_data_index", "digital_rf_get_global_sample"):
        ck.replayers[pref] = replay_index.replay
    for pref in ("step.", "blocks.", "pre.", "L-index-post", "digital_rf_write_rf_data_index", "assert.", "bounds.", "nowrap.", "digital_rf_write_blocks_hdf5"):
        ck.replayers.setdefault(pref, replay_writer.replay)
    ck.discharge()
    if tier == "thorough":
        r = replay_writer.relevant(replay_writer.run_histories(n_random=6000, seed=seed, max_failures=6, timeout=3000))
        ck.bounded_runs.append(("bounded.write_histories", "random boundary-directed write histories through the rebuilt library vs exact model", r["calls"], r["failures"]))
    return ck


def extra(ck, tu, X, tier, seed):
    from checks import xext
    xext.add_ext_obligations(ck, 4 if tier == "thorough" else 3)
    ck.replayers["x."] = replay_writer.replay
    from checks import cast_common
    cast_common.cast_contract(ck)
    ck.replayers["py.cast"] = replay_writer.replay
    # reader half of the round trip (the same contracts as C08): candidate files, row extraction, merging, orchestration
    from checks import C08, pyload, reader_common, filelist_common
    mod = pyload.module("digital_rf_hdf5")
    C08.read_rows(ck, mod, 3 if tier == "thorough" else 2)
    C08.combine(ck, mod, 3)
    reader_common.wiring(ck, mod)
    filelist_common.file_list_contract(ck, mod, ((1, 1000), (1, 500), (2, 1000)))
    for pref in ("read.", "combine.", "reader.", "filelist."):
        ck.replayers[pref] = C08.replay_reader
