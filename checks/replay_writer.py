"""Replay for step-level obligations: write histories through the library rebuilt from the current tree."""
import os, json, subprocess, tempfile, shutil
from dvc import cfront, harness
from dvc.core import Undecided


def run_histories(n_random=300, seed=0, histories=(), max_failures=1, timeout=900, cflags=""):
    d = tempfile.mkdtemp(prefix="dvc_wh_")
    try:
        env = dict(os.environ)
        env["DRF_CFLAGS"] = cflags
        p = subprocess.run([os.path.join(harness.VERIF, "tools/build_overlay.sh"), cfront.REPO, d], capture_output=True, text=True, env=env)
        if p.returncode != 0:
            raise Undecided("cannot build the current tree: " + (p.stderr or p.stdout)[-400:])
        spec = os.path.join(d, "spec.json")
        json.dump({"random": n_random, "seed": seed, "histories": list(histories), "max_failures": max_failures}, open(spec, "w"))
        env = dict(os.environ, PYTHONPATH=d)
        q = subprocess.run(["/venv/bin/python", os.path.join(harness.VERIF, "replay_src/writer_history.py"), spec],
                           capture_output=True, text=True, env=env, timeout=timeout)
        lines = [l for l in q.stdout.strip().splitlines() if l.startswith("{")]
        if not lines:
            # the library aborted (assert) or crashed: that is itself a replayed failure
            return {"failures": [{"what": "writer process died (exit %s): %s" % (q.returncode, (q.stderr or "")[-300:])}], "histories": 0, "calls": 0}
        return json.loads(lines[-1])
    finally:
        shutil.rmtree(d, ignore_errors=True)


# which properties a failure reported by replay_src/writer_history.py speaks about (the driver checks all of them in one pass)
ASPECTS = [
    ("returned", ("C19",)), ("counters", ("C19",)), ("get_last_file_written", ("C19",)),
    ("before the cursor accepted", ("C05",)), ("malformed", ("C05",)), ("rejected rf_write", ("C05",)), ("changed the directory", ("C05",)),
    ("valid rf_write", ("C05", "C01", "C19")),
    ("tmp file left", ("C02", "C09")),
    ("name is not a multiple", ("C04",)), ("exact time belongs to file", ("C04", "C01")),
    ("stored twice", ("C01", "C04", "C06")),
    ("holds", ("C01", "C07", "C06")), ("never written", ("C01", "C07")), ("are not in any file", ("C01", "C19", "C07")),
]


def concerns(f, pid):
    what = f.get("what", "")
    for key, pids in ASPECTS:
        if key in what:
            return pid in pids
    return True      # per-file index problems, exceptions, a dead writer process: every property of the write path


def relevant(r, pid=None):
    pid = pid or harness.CURRENT_PID
    r = dict(r)
    r["failures"] = [f for f in r["failures"] if pid is None or concerns(f, pid)]
    return r


def replay(o, model):
    r = relevant(run_histories(n_random=400, seed=7, max_failures=6))
    if r["failures"]:
        f = r["failures"][0]
        return True, "write history on the real library: %s\n  history: %s" % (f["what"], f.get("history", "")), f
    return False, "no failing history among %d random boundary-directed write histories (%d calls)" % (r["histories"], r["calls"]), None
