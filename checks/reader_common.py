"""Reader orchestration under contract (C08, C01): DigitalRFReader.read / get_continuous_blocks / read_vector_raw are checked
against the contracts of their callees (modular): _get_file_list receives the query and the channel's exact rational rate
and cadences, every top-level directory's _read receives the same window, candidate list, accumulator and flags, and the
result is _combine_blocks of the accumulator.  The real methods run on symbolic sample indices (dvc/pysym)."""
import types, itertools
import z3
from dvc.core import *
from dvc import pysym
from checks import pyload


def _same(a, b):
    if pysym.is_sym(a) or pysym.is_sym(b):
        return z3.eq(z3.simplify(pysym.Zt(a)), z3.simplify(pysym.Zt(b)))
    return a is b or a == b


def wiring(ck, mod, ndirs=3):
    R = mod.DigitalRFReader
    S0, S1 = z3.Int("start_sample"), z3.Int("end_sample")
    n, d, Sc, Fc, NS = z3.Int("sample_rate_numerator"), z3.Int("sample_rate_denominator"), z3.Int("subdir_cadence_secs"), z3.Int("file_cadence_millisecs"), z3.Int("num_subchannels")
    real_fr = mod.fractions
    FP = ["<candidate file list>"]
    COMBINED = {"<combined>": 1}
    for meth, len_only in (("read", False), ("get_continuous_blocks", True)):
        ck.add_function(pyload.source_info(mod, "DigitalRFReader." + meth))
        func = "digital_rf_hdf5.DigitalRFReader." + meth
        for k, sub in itertools.product(range(0, ndirs + 1), ((None, "sym") if meth == "read" else (None,))):
            SC = z3.Int("sub_channel")
            def mk():
                rec = dict(gfl=[], reads=[], comb=[])

                def gfl(*a):
                    rec["gfl"].append(a)
                    return FP

                def mk_read(i):
                    def _read(s, e, paths, dct, len_only=False, sub_channel=None):
                        rec["reads"].append((i, s, e, paths, dct, len_only, sub_channel))
                        dct["entry%d" % i] = [i]          # one block of one sample contributed by this directory
                    return _read
                tl = [types.SimpleNamespace(_read=mk_read(i)) for i in range(k)]

                def comb(dct, len_only=False):
                    rec["comb"].append((dct, dict(dct), len_only))
                    return COMBINED
                props = {"subdir_cadence_secs": pysym.SymInt(Sc), "file_cadence_millisecs": pysym.SymInt(Fc), "sample_rate_numerator": pysym.SymInt(n),
                         "sample_rate_denominator": pysym.SymInt(d), "num_subchannels": pysym.SymInt(NS),
                         "samples_per_second": ("long double rate (inexact)",)}
                self_ = types.SimpleNamespace(get_properties=lambda ch: dict(props), _get_file_list=gfl, _combine_blocks=comb,
                                              _channel_dict={"ch": types.SimpleNamespace(top_level_dir_meta_list=tl)})
                mod.fractions = types.SimpleNamespace(Fraction=lambda a, b=1: ("Fraction", a, b))
                if meth == "read":
                    return (self_, pysym.SymInt(S0), pysym.SymInt(S1), "ch"), dict(sub_channel=(pysym.SymInt(SC) if sub else None)), rec
                return (self_, pysym.SymInt(S0), pysym.SymInt(S1), "ch"), {}, rec
            try:
                outs = pysym.explore(getattr(R, meth), mk, [NS >= 1, SC >= 0, n >= 1, d >= 1, Sc >= 1, Fc >= 1], max_paths=200)
            finally:
                mod.fractions = real_fr
            tag = "%s dirs=%d sub_channel=%s" % (meth, k, "given" if sub else None)
            meta = {"shape": tag}
            for oc in outs:
                r = dict(oc.extra)
                if oc.kind == "raise":
                    # refusals: only the documented ones, before anything is read
                    ck.struct("reader.%s.refusal_reads_nothing" % meth, not r["reads"] and isinstance(oc.value, ValueError), "%s: raised %r after %d _read calls" % (tag, oc.value, len(r["reads"])), {"attr": tag})
                    bad = z3.Or(S1 < S0, (SC >= NS) if sub else z3.BoolVal(False)) if meth == "read" else z3.BoolVal(False)
                    ck.add([Obl("reader.%s.refuses_only_bad_query" % meth, func, 0, oc.pc, bad, kind="post", meta=meta)])
                    continue
                if meth == "read":
                    ck.add([Obl("reader.read.accepts_only_good_query", func, 0, oc.pc, z3.And(S0 <= S1, (SC < NS) if sub else z3.BoolVal(True)), kind="post", meta=meta)])
                g = r["gfl"]
                okg = len(g) == 1 and len(g[0]) == 5 and _same(g[0][0], pysym.SymInt(S0)) and _same(g[0][1], pysym.SymInt(S1)) \
                    and isinstance(g[0][2], tuple) and g[0][2][0] == "Fraction" and _same(g[0][2][1], pysym.SymInt(n)) and _same(g[0][2][2], pysym.SymInt(d)) \
                    and _same(g[0][3], pysym.SymInt(Sc)) and _same(g[0][4], pysym.SymInt(Fc))
                ck.struct("reader.%s.candidates_from_query_and_channel" % meth, okg,
                          "%s: _get_file_list must receive (start, end, Fraction(numerator, denominator), subdir cadence, file cadence); got %s" % (tag, g), {"attr": tag})
                rd = r["reads"]
                okr = [x[0] for x in rd] == list(range(k)) and all(_same(x[1], pysym.SymInt(S0)) and _same(x[2], pysym.SymInt(S1)) and x[3] is FP and x[5] is len_only for x in rd) \
                    and all(x[4] is rd[0][4] for x in rd) \
                    and all((_same(x[6], pysym.SymInt(SC)) if sub else x[6] is None) for x in rd)
                ck.struct("reader.%s.every_directory_read_once_same_window" % meth, okr, "%s: _read calls %s" % (tag, [(x[0], x[1], x[2], x[5], x[6]) for x in rd]), {"attr": tag})
                cb = r["comb"]
                okc = len(cb) == 1 and (k == 0 or cb[0][0] is rd[0][4]) and sorted(cb[0][1]) == ["entry%d" % i for i in range(k)] and cb[0][2] is len_only and oc.value is COMBINED
                ck.struct("reader.%s.returns_combined_accumulator" % meth, okc, "%s: _combine_blocks calls %s, returned %r" % (tag, [(sorted(c[1]), c[2]) for c in cb], oc.value), {"attr": tag})
            ck.add(pysym.obligations_of(outs, func))
    for o in ck.obls:
        if o.label.startswith("reader.") and not o.bounded:
            o.bounded = "<= %d top-level directories (sample indices and properties symbolic)" % ndirs


class _Arr:
    """stand-in for the array of one continuous block: length symbolic, shape (len, nsub)"""
    def __init__(self, length, nsub):
        self.shape = (length, nsub)
        self.ndim = 2

    def __getitem__(self, key):
        return ("squeezed", self, key)

    def squeeze(self, axis=None):
        return ("squeezed", self, ("squeeze", axis))


def vector_raw(ck, mod):
    """read_vector_raw: window = [start, start+len-1]; exactly one block of exactly len samples or IOError; never a short vector"""
    R = mod.DigitalRFReader
    ck.add_function(pyload.source_info(mod, "DigitalRFReader.read_vector_raw"))
    func = "digital_rf_hdf5.DigitalRFReader.read_vector_raw"
    S0, VL, BL = z3.Int("start_sample"), z3.Int("vector_length"), z3.Int("block_len")
    real_np, real_len = mod.np, mod.__dict__.get("len")
    for nblocks, nsub in itertools.product((0, 1, 2), (1, 2)):
        def mk():
            rec = {"read": []}
            arr = _Arr(pysym.SymInt(BL), nsub)

            def read(s, e, ch, sc=None):
                rec["read"].append((s, e, ch, sc))
                import collections
                dd = collections.OrderedDict()
                for i in range(nblocks):
                    dd[pysym.SymInt(z3.Int("key%d" % i))] = arr
                return dd

            def p_len(x):
                if x is arr:
                    return x.shape[0]
                return len(x)

            def squeeze(x, axis=None):
                return ("squeezed", x, ("squeeze", axis))
            mod.__dict__["len"] = p_len
            mod.np = types.SimpleNamespace(squeeze=squeeze)
            self_ = types.SimpleNamespace(read=read)
            rec["arr"] = arr
            return (self_, pysym.SymInt(S0), pysym.SymInt(VL), "ch"), dict(sub_channel=None), rec
        try:
            outs = pysym.explore(R.read_vector_raw, mk, [BL >= 1, S0 >= 0], max_paths=200)
        finally:
            mod.np = real_np
            if real_len is None:
                mod.__dict__.pop("len", None)
            else:
                mod.__dict__["len"] = real_len
        tag = "blocks=%d nsub=%d" % (nblocks, nsub)
        meta = {"shape": tag}
        for oc in outs:
            r = dict(oc.extra)
            if oc.kind == "raise":
                ck.struct("reader.vector.refusal_is_IOError", isinstance(oc.value, IOError), "%s: raised %r" % (tag, oc.value), {"attr": tag})
                bad = z3.Or(VL < 1, z3.BoolVal(nblocks != 1), BL != VL)
                ck.add([Obl("reader.vector.refuses_only_incomplete", func, 0, oc.pc, bad, kind="post", meta=meta)])
                continue
            rd = r["read"]
            okw = len(rd) == 1 and _same(rd[0][0], pysym.SymInt(S0)) and rd[0][2] == "ch" and rd[0][3] is None
            ck.struct("reader.vector.reads_once", okw, "%s: read calls %s" % (tag, rd), {"attr": tag})
            if okw:
                ck.add([Obl("reader.vector.window", func, 0, oc.pc, pysym.Zt(rd[0][1]) == S0 + VL - 1, kind="post", meta=meta)])
            ck.add([Obl("reader.vector.complete_or_refused", func, 0, oc.pc, z3.And(VL >= 1, z3.BoolVal(nblocks == 1), BL == VL), kind="post", meta=meta)])
            v = oc.value
            # only the sub-channel axis may be dropped, and only when it has one entry (a one-sample read keeps its sample axis)
            drop1 = (slice(None, None, None), 0)
            okv = v is r["arr"] or (nsub == 1 and isinstance(v, tuple) and v[0] == "squeezed" and v[1] is r["arr"] and v[2] in (drop1, ("squeeze", 1), ("squeeze", -1), ("squeeze", (1,))))
            ck.struct("reader.vector.returns_the_block", okv, "%s: returned %r (only the sub-channel axis may be squeezed)" % (tag, v), {"attr": tag})
        ck.add(pysym.obligations_of(outs, func))


def read_cache_contract(ck, mod):
    """_top_level_dir_properties._read over SEQUENCES of calls on one reader object (the cached open file): whatever was asked before,
    a call returns exactly the rows of the candidate files that exist now - a file that was absent at an earlier call is read once it
    exists (visibility only grows), a vanished file is skipped, alternating files do not mix their data."""
    cls = mod._top_level_dir_properties
    real_os, real_h5 = mod.os, mod.h5py
    A, B = "s/rf@1.000.h5", "s/rf@2.000.h5"
    content = {A: ([(1000, 0), (1500, 10)], 30), B: ([(2000, 0)], 7)}
    sequences = {
        "absent then present": [([A], set()), ([A], {A})],
        "present twice": [([A], {A}), ([A], {A})],
        "alternating": [([A], {A, B}), ([B], {A, B}), ([A], {A, B})],
        "two candidates": [([A, B], {A, B})],
        "present then vanished": [([A], {A}), ([A], set()), ([A], {A})],
        "second file appears later": [([A, B], {A}), ([A, B], {A, B}), ([B], {A, B})],
    }
    import numpy as np
    for name, seq in sequences.items():
        exists = set()
        opened = []

        class Data:
            def __init__(self, path, n):
                self.path, self.shape = path, (n, 1)

            def __getitem__(self, key):
                sl = key[0] if isinstance(key, tuple) else key
                return ("rows", self.path, sl.start, sl.stop)

        class F(dict):
            def close(self):
                self.closed = True

        def File(path, mode="r", **kw):
            rel = path.split("/top/ch/")[-1]
            opened.append((rel, mode))
            if rel not in exists:
                raise IOError("no such file")
            rows, n = content[rel]
            return F({"rf_data": Data(rel, n), "rf_data_index": {Ellipsis: np.array(rows, dtype=np.uint64)}})
        mod.h5py = types.SimpleNamespace(File=File)
        mod.os = types.SimpleNamespace(path=real_os.path, R_OK=real_os.R_OK, access=lambda p, m: p.split("/top/ch/")[-1] in exists)
        self_ = types.SimpleNamespace(access_mode="local", top_level_dir="/top", channel_name="ch", _cachedFilename=None, _cachedFile=None, rdcc_nbytes=1000)
        ok, detail = True, ""
        try:
            for step, (cands, now) in enumerate(seq):
                exists.clear()
                exists.update(now)
                d = {}
                cls._read(self_, 0, 10 ** 9, list(cands), d, len_only=False, sub_channel=None)
                want = {}
                for c in cands:
                    if c in now:
                        rows, n = content[c]
                        for i, (g0, o0) in enumerate(rows):
                            o1 = rows[i + 1][1] if i + 1 < len(rows) else n
                            want[g0] = ("rows", c, o0, o1)
                got = {int(k): (v[0], v[1], int(v[2]), int(v[3])) for k, v in d.items()}
                if got != want:
                    ok, detail = False, "call %d of %s: candidates %s, existing %s: returned %s, expected %s" % (step + 1, name, cands, sorted(now), got, want)
                    break
        except Exception as e:
            ok, detail = False, "%s: raised %r" % (name, e)
        finally:
            mod.os, mod.h5py = real_os, real_h5
        ck.struct("reader.cache.returns_what_exists_now", ok, detail or name, {"attr": name})
        ck.struct("reader.cache.opens_readonly", all(m == "r" for _, m in opened), "%s: opened %s" % (name, opened), {"attr": name})


def vector_conversion(ck, mod):
    """read_vector / read_vector_1d (enumerated over stored element types): the raw vector is converted to the smallest floating type
    that holds every value of the stored type exactly (float32 / float64, complex64 / complex128 for structured (r, i) data), element
    for element, same shape; read_vector_1d is read_vector with sub-channel 0 by default."""
    import numpy as np
    R = mod.DigitalRFReader
    for nm in ("read_vector", "read_vector_1d"):
        ck.add_function(pyload.source_info(mod, "DigitalRFReader." + nm))
    bad = []
    n = 0
    cases = []
    for dt in ("i1", "u1", "i2", "u2", "i4", "u4", "i8", "f4", "f8", ">i2", ">f4", "c8", "c16"):
        d = np.dtype(dt)
        info = np.iinfo(d) if d.kind in "iu" else None
        vals = [0, 1, 2] + ([int(info.min), int(info.max)] if info is not None else [-3, 1e6])
        if d.kind in "iu" and d.itemsize == 8:
            vals = [0, 1, -5, 2 ** 40]      # 64-bit integers are not exactly representable in any float type beyond 2^53: documented promotion is float64
        arr = np.array(vals, dtype=d) if d.kind != "c" else (np.array(vals[:3], dtype=d) + 1j)
        cases.append((dt, arr))
    for rdt in ("i1", "i2", "i4", "f4"):
        sd = np.dtype([("r", rdt), ("i", rdt)])
        a = np.zeros(4, dtype=sd)
        a["r"], a["i"] = [1, -2, 3, 100], [5, 6, -7, -100]
        cases.append(("struct " + rdt, a))
    for tag, arr in cases:
        for shape2 in (False, True):
            z = np.stack([arr, arr], axis=1) if shape2 else arr
            n += 1
            rec = []
            self_ = types.SimpleNamespace(read_vector_raw=lambda s, L, ch, sc=None: (rec.append((s, L, ch, sc)), z)[1])
            try:
                out = R.read_vector(self_, 100, len(arr), "ch", 1 if shape2 else None)
            except Exception as e:
                bad.append((tag, shape2, "raised %r" % (e,)))
                continue
            okcall = rec == [(100, len(arr), "ch", 1 if shape2 else None)]
            if z.dtype.names is not None:
                want_dt = np.promote_types("c8", z.dtype["r"])
                want = z["r"].astype("f8") + 1j * z["i"].astype("f8")
            else:
                want_dt = np.promote_types("f4", z.dtype)
                want = z
            lossless = out.shape == z.shape and out.dtype.kind in "fc" and bool(np.array_equal(np.asarray(out, dtype="c16"), np.asarray(want, dtype="c16")))
            # smallest safe floating type: float32 holds 8/16-bit integers (and float32), everything wider needs float64
            base = z.dtype["r"] if z.dtype.names is not None else z.dtype
            small = base.itemsize <= 2 and base.kind in "iu" or (base.kind == "f" and base.itemsize == 4) or (base.kind == "c" and base.itemsize == 8)
            want_size = (4 if small else 8) * (2 if (z.dtype.names is not None or base.kind == "c") else 1)
            if not (okcall and lossless and out.dtype == want_dt and out.dtype.itemsize == want_size):
                bad.append((tag, shape2, "call %s dtype %s (expected %s, %d bytes) lossless %s" % (rec, out.dtype, want_dt, want_size, lossless)))
    rec = []
    self_ = types.SimpleNamespace(read_vector=lambda s, L, ch, sc=None: (rec.append((s, L, ch, sc)), "VEC")[1])
    n += 2
    if R.read_vector_1d(self_, 5, 7, "ch") != "VEC" or rec != [(5, 7, "ch", 0)]:
        bad.append(("read_vector_1d default sub-channel", rec))
    del rec[:]
    if R.read_vector_1d(self_, 5, 7, "ch", 2) != "VEC" or rec != [(5, 7, "ch", 2)]:
        bad.append(("read_vector_1d explicit sub-channel", rec))
    ck.enumerations.append(("reader.vector.conversion", n, len(bad), bad[:3]))
    ck.struct("reader.vector.conversion", not bad, "read_vector / read_vector_1d deviate from the documented lossless conversion: %s" % (bad[:4],), {"no_input": False})


def reader_init_merge(ck, mod):
    """DigitalRFReader.__init__ (modular, enumerated): every channel name found under any of the top-level directories becomes one channel
    whose per-directory parts are all the directories that hold it, in the order the directories were given, each built with that
    directory, the channel name, the directory's access mode and the cache size; no directories at all -> ValueError."""
    import itertools as _it
    R = mod.DigitalRFReader
    ck.add_function(pyload.source_info(mod, "DigitalRFReader.__init__"))
    real = {k: mod.__dict__[k] for k in ("_top_level_dir_properties", "_channel_properties")}
    bad = []
    n = 0
    tops = ["/data/topA", "/data/topB", "/data/topC"]
    layouts = [
        {"/data/topA": ["ch0"]},
        {"/data/topA": ["ch0", "ch1"], "/data/topB": ["ch1"]},
        {"/data/topA": ["ch0"], "/data/topB": ["ch0"], "/data/topC": ["ch0", "ch2"]},
        {"/data/topA": [], "/data/topB": ["x"]},
        {"/data/topA": [], "/data/topB": []},
    ]
    for lay, order in _it.product(layouts, ("fwd", "rev")):
        given = [t for t in tops if t in lay]
        if order == "rev":
            given = list(reversed(given))
        made = []

        class TL:
            def __init__(self, top, name, mode, rdcc_nbytes=None):
                self.args = (top, name, mode, rdcc_nbytes)
                made.append(self)

        class CP:
            def __init__(self, name, top_level_dir_meta_list=None):
                self.name, self.parts = name, list(top_level_dir_meta_list or [])
        mod._top_level_dir_properties, mod._channel_properties = TL, CP
        r = object.__new__(R)
        r._get_channels_in_dir = lambda top: [top + "/" + c for c in lay[top]]
        n += 1
        try:
            try:
                R.__init__(r, given if len(given) != 1 else given[0], rdcc_nbytes=777)
                got = {k: [p.args for p in v.parts] for k, v in r._channel_dict.items()}
            except ValueError:
                got = "ValueError"
            except Exception as e:
                got = "raised %r" % (e,)
        finally:
            for k, v in real.items():
                mod.__dict__[k] = v
        names = []
        for t in given:
            for c in lay[t]:
                if c not in names:
                    names.append(c)
        want = {c: [(t, c, "local", 777) for t in given if c in lay[t]] for c in names} if names else "ValueError"
        if got != want:
            bad.append((lay, order, got, want))
    ck.enumerations.append(("reader.init.channels_merged_over_directories", n, len(bad), bad[:2]))
    ck.struct("reader.init.channels_merged_over_directories", not bad, "DigitalRFReader.__init__ deviates: %s" % (bad[:2],), {})
