"""C13 - metadata placement agrees between writer and reader; C12/C20 share the bounded differential driver."""
import os, ast, inspect, textwrap, types
import z3
from dvc.core import *
from dvc import cfront, harness, pysym
from checks import pyload, replay_py
from spec.timespec import floor_is


def find_func(tree, cls, name):
    for n in ast.walk(tree):
        if isinstance(n, ast.ClassDef) and n.name == cls:
            for f in n.body:
                if isinstance(f, ast.FunctionDef) and f.name == name:
                    return f
    raise Undecided("%s.%s not found" % (cls, name))


def eval_expr(node, ns):
    code = compile(ast.Expression(body=node), "<contract-expr>", "eval")
    return eval(code, {"int": pysym.p_int, "np": None, "__builtins__": {}}, ns)


def placement(ck, mod):
    src = open(mod.__file__).read()
    tree = ast.parse(src)
    k, n, d, C, S = z3.Ints("k n d C S")
    hyp = [k >= 0, n >= 1, d >= 1, C >= 1, S >= 1]
    # ---- writer: key function of the groupby in _sample_group_generator, file_ts and start_sub_ts
    f = find_func(tree, "DigitalMetadataWriter", "_sample_group_generator")
    ck.add_function(pyload.source_info(mod, "DigitalMetadataWriter._sample_group_generator"))
    lam = [x for x in ast.walk(f) if isinstance(x, ast.Lambda)]
    assigns = {}
    for x in ast.walk(f):
        if isinstance(x, ast.Assign) and len(x.targets) == 1 and isinstance(x.targets[0], ast.Name):
            assigns[x.targets[0].id] = x.value
    if len(lam) != 1 or "file_ts" not in assigns or "start_sub_ts" not in assigns:
        raise Undecided("_sample_group_generator changed shape (groupby key / file_ts / start_sub_ts)")
    self_ = types.SimpleNamespace(_file_cadence_secs=pysym.SymInt(C), _subdir_cadence_secs=pysym.SymInt(S),
                                  _sample_rate_numerator=pysym.SymInt(n), _sample_rate_denominator=pysym.SymInt(d),
                                  _samples_per_second=FloatRate())
    ns = {"self": self_}
    ctx = pysym.Ctx()
    pysym.Ctx.cur = ctx
    try:
        for nm in ("srn", "srd", "samples_per_file"):
            if nm in assigns:
                ns[nm] = eval_expr(assigns[nm], ns)
        argname = lam[0].args.args[0].arg
        ns[argname] = pysym.SymInt(k)
        file_idx = eval_expr(lam[0].body, ns)
        ns["file_idx"] = file_idx
        file_ts = eval_expr(assigns["file_ts"], ns)
        ns["file_ts"] = file_ts
        sub_ts = eval_expr(assigns["start_sub_ts"], ns)
    except (FloatUsed, Undecided) as e:
        ck.struct("w.place.integer_arithmetic", False,
                  "the writer's file index is computed in floating point (%s): not exact for non-integer rates (k on a file boundary is stored one file early)" % e, {"no_input": True})
        return
    finally:
        pysym.Ctx.cur = None
    ck.struct("w.place.integer_arithmetic", True, "file index = %s" % ast.unparse(lam[0].body))
    sec = z3.Int("sec")
    spec = [floor_is(sec, k * d, n)]
    T = z3.Int("T")
    # T = floor(sec / C) * C ; subdir = floor(T / S) * S
    q = z3.Int("qT")
    specT = spec + [T == q * C, q * C <= sec, sec < q * C + C]
    ck.add([Obl("w.place.file_time", "digital_metadata._sample_group_generator", 0, hyp + specT + ctx.pc_extra, pysym.Zt(file_ts) == T, kind="post"),
            Obl("w.place.subdir", "digital_metadata._sample_group_generator", 0, hyp + [T >= 0] + ctx.pc_extra + [pysym.Zt(file_ts) == T],
                z3.And(pysym.Zt(sub_ts) <= T, T < pysym.Zt(sub_ts) + S, z3.Exists([z3.Int("m")], pysym.Zt(sub_ts) == z3.Int("m") * S)), kind="post")])
    for label, goal, pc, meta in ctx.obls:
        ck.add([Obl("w.place." + label, "digital_metadata._sample_group_generator", 0, hyp + pc, goal, kind="safety")])
    # file name / path pieces
    body = ast.unparse(f)
    ck.struct("w.place.name_format", '"%s@%i.h5" % (self._file_name, file_ts)' in body.replace("'", '"') and "%Y-%m-%dT%H-%M-%S" in body,
              "file name must be <prefix>@<file_ts>.h5 in the subdirectory named for start_sub_ts")
    # ---- reader: _get_file_list start/end timestamps
    g = find_func(tree, "DigitalMetadataReader", "_get_file_list")
    ck.add_function(pyload.source_info(mod, "DigitalMetadataReader._get_file_list"))
    stmts = [x for x in g.body if isinstance(x, ast.Assign) and len(x.targets) == 1 and isinstance(x.targets[0], ast.Name)]
    ns = {"self": self_, "sample0": pysym.SymInt(k), "sample1": pysym.SymInt(k)}
    ctx = pysym.Ctx()
    pysym.Ctx.cur = ctx
    try:
        for x in stmts:
            if x.targets[0].id in ("start_ts", "end_ts", "start_sub_ts", "end_sub_ts"):
                ns[x.targets[0].id] = eval_expr(x.value, ns)
    except (FloatUsed, Undecided) as e:
        ck.struct("r.place.integer_arithmetic", False, "the reader's file time is computed in floating point (%s)" % e, {"no_input": True})
        return
    finally:
        pysym.Ctx.cur = None
    ck.struct("r.place.integer_arithmetic", True, "")
    for nm in ("start_ts", "end_ts"):
        ck.add([Obl("r.place.%s" % nm, "digital_metadata._get_file_list", 0, hyp + specT + ctx.pc_extra, pysym.Zt(ns[nm]) == T, kind="post")])
    for nm in ("start_sub_ts", "end_sub_ts"):
        ck.add([Obl("r.place.%s" % nm, "digital_metadata._get_file_list", 0,
                    hyp + [T >= 0] + ctx.pc_extra + [pysym.Zt(ns["start_ts"]) == T, pysym.Zt(ns["end_ts"]) == T],   # proved above (chain)
                    z3.And(pysym.Zt(ns[nm]) <= T, T < pysym.Zt(ns[nm]) + S), kind="post")])
    for label, goal, pc, meta in ctx.obls:
        ck.add([Obl("r.place." + label, "digital_metadata._get_file_list", 0, hyp + pc, goal, kind="safety")])
    # the real generator, whole: groups, files and subdirectories of up to three samples of one write call
    from checks import dmd_common
    dmd_common.writer_placement(ck, mod, 3)
    # nested-floor lemma: floor(k*d/(n*C)) == floor(floor(k*d/n)/C)
    a, b = z3.Ints("a b")
    ck.lemma("L-nested-floor", hyp + [floor_is(a, k * d, n * C), floor_is(sec, k * d, n), floor_is(b, sec, C)], a == b)


class FloatUsed(Exception):
    pass


class FloatRate:
    """stands for the long-double sample rate: any arithmetic with it is floating point"""
    def _f(self, *a):
        raise FloatUsed("samples_per_second")
    __mul__ = __rmul__ = __truediv__ = __rtruediv__ = __add__ = __radd__ = _f


def replay_dmd(o, model):
    r = replay_py.run_driver("dmd_history.py", {"seed": 13, "channels": 150, "queries": 20, "max_failures": 1})
    if r["failures"]:
        f = r["failures"][0]
        return True, "metadata writer/reader on real files: %s\n  case: %s" % (f["what"], str(f.get("case"))[:500]), f
    return False, "no deviation on %d metadata cases" % r["cases"], None


def run_common(pid, tier, seed):
    ck = harness.Check(pid, tier, seed, level="proof" if pid == "C13" else "other")
    mod = pyload.module("digital_metadata")
    return ck, mod


def run(tier, seed, replay=None):
    ck, mod = run_common("C13", tier, seed)
    placement(ck, mod)
    ck.replayers["w.place"] = replay_dmd
    ck.replayers["r.place"] = replay_dmd
    ck.replayers["w.gen"] = replay_dmd
    from checks import dmd_common
    dmd_common.params_contract(ck)
    from checks import filelist_common
    filelist_common.dmd_file_list_contract(ck, mod)
    ck.replayers["dmdlist."] = replay_dmd
    ck.replayers["dmd."] = replay_dmd
    ck.discharge()
    nch = 1200 if tier == "thorough" else 120
    r = replay_py.run_driver("dmd_history.py", {"seed": seed, "channels": nch, "queries": 6, "max_failures": 3}, timeout=3000)
    place = [f for f in r["failures"]]
    ck.bounded_runs.append(("bounded.dmd_placement_and_reads", "%d metadata channels (9 rates incl. 1e6/3, 12500001/2, 25 MHz; cadences 1/10/60 s; samples on and next to file boundaries): on-disk path vs exact arithmetic, read(k,k), bounds, read_latest" % nch,
                            r["cases"], place))
    ck.assumptions += ["datetime.fromtimestamp/strftime render the subdirectory name; h5py group names are str(sample)"]
    ck.extra["explanation"] = "placement expressions of the real writer and reader evaluated symbolically (exact integer arithmetic) and proved equal to the specification; on-disk placement cross-checked by a bounded differential"
    return ck
