"""Python half of C05 / C19: DigitalRFWriter.rf_write / rf_write_blocks on the real methods (symbolic proxies)."""
import os, types, itertools
import z3
from dvc.core import *
from dvc import harness, pysym
from checks import pyload

U63 = 1 << 63


class SymArr:
    """stands for a 1-D numpy uint64 array of concrete length with symbolic elements (values below 2^63)"""
    def __init__(self, elems):
        self.e = list(elems)
        self.shape = (len(self.e),)

    def __len__(self):
        return len(self.e)

    def __getitem__(self, i):
        return self.e[i]

    def view(self, dtype=None):
        return self

    def _bin(self, o, f):
        if isinstance(o, SymArr):
            return SymArr([f(a, b) for a, b in zip(self.e, o.e)])
        return SymArr([f(a, o) for a in self.e])

    def __lt__(self, o):
        return self._bin(o, lambda a, b: a < b)

    def __gt__(self, o):
        return self._bin(o, lambda a, b: a > b)

    def __ge__(self, o):
        return self._bin(o, lambda a, b: a >= b)

    def __le__(self, o):
        return self._bin(o, lambda a, b: a <= b)

    def __sub__(self, o):
        return self._bin(o, lambda a, b: a - b)

    def __add__(self, o):
        return self._bin(o, lambda a, b: a + b)

    def sum(self):
        r = 0
        for x in self.e:
            r = r + x
        return r

    def __repr__(self):
        return "SymArr(%d)" % len(self.e)


def fake_np():
    def diff(a):
        return SymArr([a.e[i + 1] - a.e[i] for i in range(len(a.e) - 1)])

    def any_(a):
        r = False
        for x in a.e:
            r = pysym.lift(z3.Or(pysym.Bt(r), pysym.Bt(x)))
        return r

    def all_(a):
        r = True
        for x in a.e:
            r = pysym.lift(z3.And(pysym.Bt(r), pysym.Bt(x)))
        return r
    def sum_(a):
        r = 0
        for x in a.e:
            r = r + x
        return r
    return types.SimpleNamespace(diff=diff, any=any_, all=all_, int64="int64", uint64="uint64", sum=sum_,
                                 cumsum=lambda a: SymArr(list(itertools.accumulate(a.e, lambda x, y: x + y))))


def wf0(g, b, L, N, cursor):
    cs = [b[0] == 0, g[0] >= cursor, N >= 1]
    for i in range(L):
        cs.append(b[i] < N)
    for i in range(1, L):
        cs += [b[i] > b[i - 1], g[i] > g[i - 1], b[i] - b[i - 1] <= g[i] - g[i - 1]]
    return z3.And(cs)


def add_py_writer(ck, pid, lmax=3):
    mod = pyload.module("digital_rf_hdf5")
    W = mod.DigitalRFWriter
    for nm in ("DigitalRFWriter.rf_write", "DigitalRFWriter.rf_write_blocks"):
        ck.add_function(pyload.source_info(mod, nm))
    cursor, tw, tg, N, ret = z3.Ints("next_avail_sample total_written total_gaps N ext_return")
    base = [cursor >= 0, tw >= 0, tg >= 0, cursor == tw + tg, N >= 0, cursor < U63, N < (1 << 40)]
    real_np, real_ext = mod.np, mod._py_rf_write_hdf5

    def mk_self(calls):
        s = types.SimpleNamespace(_next_avail_sample=pysym.SymInt(cursor), _total_samples_written=pysym.SymInt(tw), _total_gap_samples=pysym.SymInt(tg),
                                  _channelObj=object())
        s._cast_input_array = lambda arr: arr
        s._cast_sample_array = lambda a: a
        return s

    def ext(calls, name):
        def f(*a):
            calls.append((name,) + a)
            if pysym.SymBool(z3.Bool("extension_fails")):
                raise RuntimeError("Failed to write data")
            return pysym.SymInt(ret)
        return f
    try:
        # ------------------------------------------------------------ rf_write_blocks
        for L in range(1, lmax + 1):
            g = [z3.Int("g%d" % i) for i in range(L)]
            b = [z3.Int("b%d" % i) for i in range(L)]
            hyp = base + [x >= 0 for x in g + b] + [x < U63 for x in g + b]
            def mk():
                calls = []      # fresh per run: outcomes keep their own call record
                mod.np = fake_np()
                mod._py_rf_write_hdf5 = types.SimpleNamespace(rf_block_write=ext(calls, "rf_block_write"), rf_write=ext(calls, "rf_write"))
                s = mk_self(calls)
                arr = types.SimpleNamespace(shape=(pysym.SymInt(N),))
                GA, BA = SymArr([pysym.SymInt(x) for x in g]), SymArr([pysym.SymInt(x) for x in b])
                s._given = (arr, GA, BA)
                return (s, arr, GA, BA), {}, (s, calls)
            outs = pysym.explore(W.rf_write_blocks, mk, hyp, max_paths=3000)
            func = "digital_rf_hdf5.DigitalRFWriter.rf_write_blocks"
            WF = wf0(g, b, L, N, cursor)
            # contract of the extension (C side, proved in C19/C05): returns the cursor after the call
            ext_post = ret == g[L - 1] + (N - b[L - 1])
            for oc in outs:
                s, cl = oc.extra
                called = list(cl)
                meta = {"L": L}
                if oc.kind == "raise" and isinstance(oc.value, (AttributeError, TypeError, NotImplementedError)) and \
                        any(k in str(oc.value) for k in ("SymArr", "SimpleNamespace", "SymInt", "SymBool")):
                    raise Undecided("rf_write_blocks uses a numpy feature the stand-ins do not have: %r" % (oc.value,))
                if oc.kind == "raise":
                    pre_validation = not called
                    if pre_validation:
                        ck.add([Obl("py.blocks.reject_only_malformed", func, 0, oc.pc, z3.Not(WF), kind="post", meta=meta)])
                        ck.struct("py.blocks.reject_is_ValueError", isinstance(oc.value, ValueError), "pre-validation must raise ValueError, raised %r" % (oc.value,), {"attr": "L=%d" % L})
                    unchanged = z3.And(pysym.Zt(s._next_avail_sample) == cursor, pysym.Zt(s._total_samples_written) == tw, pysym.Zt(s._total_gap_samples) == tg)
                    ck.add([Obl("py.blocks.rejected_call_changes_nothing", func, 0, oc.pc, unchanged, kind="post", meta=meta)])
                else:
                    # accepted: must have been well formed (malformed => rejected before the extension is called)
                    ck.add([Obl("py.blocks.accept_only_wellformed", func, 0, oc.pc, WF, kind="post", meta=meta)])
                    ck.struct("py.blocks.extension_called_once", len(called) == 1 and called[0][0] == "rf_block_write", "calls: %s" % [c[0] for c in called], {"attr": "L=%d" % L})
                    # the extension receives the writer handle, the data and the two index arrays as given (after the casts, identity here)
                    okargs = len(called) == 1 and len(called[0]) == 5 and called[0][1] is s._channelObj and all(x is y for x, y in zip(called[0][2:], s._given))
                    ck.struct("py.blocks.extension_args", okargs, "rf_block_write must receive (channel, arr, global_sample_arr, block_sample_arr)", {"attr": "L=%d" % L})
                    hy = oc.pc + [ext_post]
                    ck.add([Obl("py.blocks.counters", func, 0, hy,
                                z3.And(pysym.Zt(s._next_avail_sample) == ret, pysym.Zt(s._total_samples_written) == tw + N,
                                       pysym.Zt(s._total_gap_samples) == tg + (ret - cursor - N),
                                       pysym.Zt(s._next_avail_sample) == pysym.Zt(s._total_samples_written) + pysym.Zt(s._total_gap_samples),
                                       pysym.Zt(oc.value) == ret), kind="post", meta=meta)])
            ck.add(pysym.obligations_of(outs, func))
        # ------------------------------------------------------------ rf_write
        ns = z3.Int("next_sample")
        for given in (True, False):
            def mk2():
                calls = []
                mod.np = fake_np()
                mod._py_rf_write_hdf5 = types.SimpleNamespace(rf_block_write=ext(calls, "rf_block_write"), rf_write=ext(calls, "rf_write"))
                s = mk_self(calls)
                arr = types.SimpleNamespace(shape=(pysym.SymInt(N),))
                return (s, arr), ({"next_sample": pysym.SymInt(ns)} if given else {}), (s, calls)
            outs = pysym.explore(W.rf_write, mk2, base + [ns >= 0, ns < U63], max_paths=500)
            func = "digital_rf_hdf5.DigitalRFWriter.rf_write"
            at = ns if given else cursor
            # contract of the extension / C API: a non-empty write ends at at+N; an empty write leaves the cursor
            ext_post = ret == z3.If(N >= 1, at + N, cursor)
            for oc in outs:
                s, cl = oc.extra
                called = list(cl)
                if oc.kind == "raise":
                    if not called:
                        ck.add([Obl("py.write.reject_only_before_cursor", func, 0, oc.pc, at < cursor, kind="post")])
                    ck.add([Obl("py.write.rejected_call_changes_nothing", func, 0, oc.pc,
                                z3.And(pysym.Zt(s._next_avail_sample) == cursor, pysym.Zt(s._total_samples_written) == tw, pysym.Zt(s._total_gap_samples) == tg), kind="post")])
                else:
                    ck.add([Obl("py.write.accept_only_forward", func, 0, oc.pc, at >= cursor, kind="post")])
                    ck.add([Obl("py.write.counters", func, 0, oc.pc + [ext_post],
                                z3.And(pysym.Zt(s._next_avail_sample) == ret, pysym.Zt(s._total_samples_written) == tw + N,
                                       pysym.Zt(s._next_avail_sample) == pysym.Zt(s._total_samples_written) + pysym.Zt(s._total_gap_samples),
                                       pysym.Zt(oc.value) == ret), kind="post")])
            ck.add(pysym.obligations_of(outs, func))
    finally:
        mod.np, mod._py_rf_write_hdf5 = real_np, real_ext
    if pid == "C19":
        # C19 speaks about the counters and return values; which calls are refused is C05's
        ck.obls[:] = [o for o in ck.obls if not (o.label.endswith("accept_only_forward") or o.label.endswith("accept_only_wellformed")
                                                 or o.label.endswith("reject_only_before_cursor") or o.label.endswith("reject_only_malformed"))]
    if pid == "C05":
        # C05 speaks about refusals; what the counters become after an accepted call is C19's
        ck.obls[:] = [o for o in ck.obls if not o.label.endswith(".counters")]
    for o in ck.obls:
        if o.label.startswith("py.blocks"):
            o.bounded = "<= %d blocks per call (all values symbolic)" % lmax
    ck.assumptions += ["extension contract used for the counters: rf_block_write / rf_write return the C cursor after the call (C19 C side) and raise otherwise",
                       "numpy operations used by the pre-validation (np.diff, .view(int64), np.any, indexing) are modelled on values below 2^63"]
