"""C03 - exact sample-index <-> time conversion."""
import os, ctypes, random, subprocess, tempfile, shutil
import z3
from dvc.core import *
from dvc import cfront, cext, harness
from contracts import c_time
from contracts.base import NS
from spec import timespec as T

REPO = cfront.REPO
CSRC = os.path.join(REPO, "c/lib/rf_write_hdf5.c")


def build_lib():
    d = tempfile.mkdtemp(prefix="dvc_c03_")
    so = os.path.join(d, "libdrf.so")
    p = subprocess.run(["gcc", "-O1", "-shared", "-fPIC", "-I%s/c/include" % REPO, "-I/usr/include/hdf5/serial", CSRC,
                        "-L/usr/lib/x86_64-linux-gnu/hdf5/serial", "-lhdf5", "-lm", "-o", so], capture_output=True, text=True)
    if p.returncode != 0:
        shutil.rmtree(d, ignore_errors=True)
        raise Undecided("cannot build C library from current tree: " + p.stderr[:300])
    return d, ctypes.CDLL(so)


def c_floor(lib, k, n, d):
    s, p = ctypes.c_uint64(), ctypes.c_uint64()
    lib.digital_rf_get_timestamp_floor(ctypes.c_uint64(k), ctypes.c_uint64(n), ctypes.c_uint64(d), ctypes.byref(s), ctypes.byref(p))
    return s.value, p.value


def c_ceil(lib, s, p, n, d):
    r = ctypes.c_uint64()
    lib.digital_rf_get_sample_ceil(ctypes.c_uint64(s), ctypes.c_uint64(p), ctypes.c_uint64(n), ctypes.c_uint64(d), ctypes.byref(r))
    return r.value


def model_get(model, name, default=0):
    for k, v in (model or {}).items():
        if k == name and isinstance(v, int):
            return v
    return default


def gen_inputs(rnd, count):
    for _ in range(count):
        n = rnd.choice([1, 2, 3, 6, 7, 200, 315, 1001, 10 ** 6, 10 ** 9, (1 << 32) - 1, rnd.randrange(1, 1 << 32), rnd.randrange(1, 5000)])
        d = rnd.choice([1, 2, 3, 7, 10 ** 9, rnd.randrange(1, 10 ** 9 + 1), rnd.randrange(1, 50)])
        if n * d >= 1 << 64:
            continue
        kmax = min((1 << 63) - 1, (T.Y10K * n) // d - 1)
        k = rnd.choice([0, 1, kmax, rnd.randrange(0, kmax + 1), rnd.randrange(0, min(kmax, 10 ** 6) + 1)])
        yield k, n, d


def replay_floor(o, model):
    k, n, d = (model_get(model, x, 1) for x in ("sample_index", "sample_rate_numerator", "sample_rate_denominator"))
    if "global_sample" in (model or {}):
        k = model_get(model, "global_sample")
    dd, lib = build_lib()
    try:
        got = c_floor(lib, k, n, d)
        want = (T.sec(k, n, d), T.ps(k, n, d))
        if got == want:
            # model of an intermediate (stage) obligation: look for a concrete failing input (bounded, refutation only)
            for k2, n2, d2 in gen_inputs(random.Random(1), 30000):
                g2 = c_floor(lib, k2, n2, d2)
                if g2 != (T.sec(k2, n2, d2), T.ps(k2, n2, d2)):
                    k, n, d, got, want = k2, n2, d2, g2, (T.sec(k2, n2, d2), T.ps(k2, n2, d2))
                    break
    finally:
        shutil.rmtree(dd, ignore_errors=True)
    bad = got != want
    return bad, "digital_rf_get_timestamp_floor(%d, %d, %d) = %s, exact value %s" % (k, n, d, got, want), {"index": k, "n": n, "d": d}


def replay_ceil(o, model):
    s, p, n, d = (model_get(model, x, 1) for x in ("second", "picosecond", "sample_rate_numerator", "sample_rate_denominator"))
    dd, lib = build_lib()
    try:
        got = c_ceil(lib, s, p, n, d)
        want = T.ceil_idx(s, p, n, d)
        if got == want:
            rnd = random.Random(2)
            for k2, n2, d2 in gen_inputs(rnd, 30000):
                for s2, p2 in ((T.sec(k2, n2, d2), T.ps(k2, n2, d2)), (rnd.randrange(0, 4 * 10 ** 9), rnd.choice([0, 1, 999, 1000, 1001, 10 ** 9, T.PS - 1, rnd.randrange(T.PS)]))):
                    if T.ceil_idx(s2, p2, n2, d2) >= 1 << 63:
                        continue
                    g2 = c_ceil(lib, s2, p2, n2, d2)
                    if g2 != T.ceil_idx(s2, p2, n2, d2):
                        s, p, n, d, got, want = s2, p2, n2, d2, g2, T.ceil_idx(s2, p2, n2, d2)
                        break
                if got != want:
                    break
    finally:
        shutil.rmtree(dd, ignore_errors=True)
    return got != want, "digital_rf_get_sample_ceil(%d, %d, %d, %d) = %d, exact value %d" % (s, p, n, d, got, want), {"s": s, "p": p, "n": n, "d": d}


def replay_parts(o, model):
    """digital_rf_get_time_parts on the rebuilt library against the proleptic Gregorian calendar (python datetime): the first and the last
    second of every day from 1970 to 9999 (the calendar fields change only at day boundaries; complete over days)"""
    import datetime
    dd, lib = build_lib()
    bad = None
    try:
        y, mo, da, h, mi, se = (ctypes.c_int() for _ in range(6))
        refs = [ctypes.byref(x) for x in (y, mo, da, h, mi, se)]
        fn = lib.digital_rf_get_time_parts
        fn.argtypes = [ctypes.c_long] + [ctypes.POINTER(ctypes.c_int)] * 6
        d0 = datetime.date(1970, 1, 1).toordinal()
        ndays = datetime.date(9999, 12, 31).toordinal() - d0 + 1
        for i in range(ndays):
            dt = datetime.date.fromordinal(d0 + i)
            for t, hms in ((i * 86400, (0, 0, 0)), (i * 86400 + 86399, (23, 59, 59))):
                fn(t, *refs)
                got = (y.value, mo.value, da.value, h.value, mi.value, se.value)
                want = (dt.year, dt.month, dt.day) + hms
                if got != want:
                    bad = (t, got, want)
                    break
            if bad:
                break
    finally:
        shutil.rmtree(dd, ignore_errors=True)
    if bad:
        return True, "digital_rf_get_time_parts(%d) = %s, calendar value %s" % bad, {"unix_second": bad[0]}
    return False, "digital_rf_get_time_parts agrees with the Gregorian calendar on the first and last second of every day 1970-9999", None


def run(tier, seed, replay=None):
    ck = harness.Check("C03", tier, seed, level="proof")
    tu = cfront.TU(CSRC)
    X = cext.make_externals()
    ck.trust({k: v for k, v in cext.TRUSTED.items() if k in ("gmtime", "fprintf/printf/fflush/H5Eprint")})

    # ---- leaf functions: body against contract ------------------------------------------------------
    for c in (c_time.FLOOR, c_time.CEIL, c_time.TIME_PARTS):
        it = cfront.CInterp(tu, contracts={}, externals=X)
        c.verify_body(it)
        ck.add(it.obls)
        ck.add_function(tu.func_info(c.name))
    # ---- get_unix_time_rational: modular, against the contracts of its callees ------------------------
    it = cfront.CInterp(tu, contracts={c_time.FLOOR.name: c_time.FLOOR.handler(), c_time.TIME_PARTS.name: c_time.TIME_PARTS.handler()}, externals=X)
    c_time.RATIONAL.verify_body(it)
    ck.add(it.obls)
    ck.add_function(tu.func_info(c_time.RATIONAL.name))

    # ---- lemmas over the spec (properties of the contracts, independent of the code) ------------------
    k, k2, n, d, s, s2, p, p2, x = z3.Ints("k k2 n d s s2 p p2 x")
    dom = [n >= 1, d >= 1, k >= 0, k2 >= 0]
    fl = lambda kk, ss, pp: [T.floor_is(ss, kk * d, n), T.floor_is(pp, (kk * d - ss * n) * T.PS, n)]
    # L-mono: the floored timestamp is monotone in the index (lexicographic on (second, picosecond))
    ck.lemma("L-mono", dom + fl(k, s, p) + fl(k2, s2, p2) + [k <= k2], z3.Or(s < s2, z3.And(s == s2, p <= p2)))
    # L-round: ceil(floor(k)) == k whenever one sample period is at least one picosecond (d*1e12 >= n)
    hy = dom + fl(k, s, p) + [T.ceil_is(x, (s * T.PS + p) * n, d * T.PS)]
    ck.lemma("L-round", hy + [d * T.PS >= n], x == k)
    ck.twin("L-round.without_period_premise", hy, x == k)
    # floor is a function: the contract pins the result uniquely (strength of the postcondition)
    ck.lemma("L-floor-unique", dom + fl(k, s, p) + fl(k, s2, p2), z3.And(s == s2, p == p2))
    ck.twin("floor.second.weaker_would_pass", dom + [s * n <= k * d, T.floor_is(s2, k * d, n)], s == s2)
    # the domain of the contract is inhabited at its corners
    a = NS(sample_index=k, sample_rate_numerator=n, sample_rate_denominator=d)
    ck.cover("floor.requires.reachable", [c for _, c in c_time.floor_requires(a)] + [k > (1 << 62), n > (1 << 31)])
    a2 = NS(second=s, picosecond=p, sample_rate_numerator=n, sample_rate_denominator=d)
    ck.cover("ceil.requires.reachable", [c for _, c in c_time.ceil_requires(a2)] + [s > 10 ** 9, p > 10 ** 11, d > 10 ** 8])

    # ---- Python wrapper: int(picosecond / 1e6) == picosecond // 10**6 ------------------------------
    py_wrapper(ck)
    ext_wrapper(ck)

    ck.replayers["digital_rf_get_time_parts"] = replay_parts
    ck.replayers["digital_rf_get_timestamp_floor"] = replay_floor
    ck.replayers["nowrap.digital_rf_get_timestamp_floor"] = replay_floor
    ck.replayers["digital_rf_get_unix_time_rational"] = replay_floor
    ck.replayers["digital_rf_get_sample_ceil"] = replay_ceil
    ck.replayers["nowrap.digital_rf_get_sample_ceil"] = replay_ceil
    ck.discharge()
    if tier == "thorough":
        thorough(ck, seed)
    ck.assumptions += [
        "machine integers: every + - * and narrowing cast in the verified C functions carries a proved no-wrap obligation, so mathematical and 64-bit arithmetic agree",
        "gmtime implements the proleptic Gregorian UTC breakdown (assumed contract; cross-checked against datetime in the thorough tier, bounded)",
        "IEEE-754 binary64 division is correctly rounded (standard model) for int(picosecond / 1e6)",
        "PyArg_ParseTuple('K') / Py_BuildValue transport 64-bit values unchanged; datetime.datetime constructor",
    ]
    return ck


def py_wrapper(ck):
    """digital_rf_hdf5.get_unix_time: structural obligations on the real AST + the rounding lemma."""
    import ast
    path = os.path.join(REPO, "python/digital_rf/digital_rf_hdf5.py")
    tree = ast.parse(open(path).read())
    fn = [n for n in tree.body if isinstance(n, ast.FunctionDef) and n.name == "get_unix_time"]
    if not fn:
        raise Undecided("digital_rf_hdf5.get_unix_time not found")
    fn = fn[0]
    ck.add_function({"name": "digital_rf_hdf5.get_unix_time", "file": path, "line_first": fn.lineno, "line_last": fn.end_lineno})
    body = [s for s in fn.body if not (isinstance(s, ast.Expr) and isinstance(s.value, ast.Constant))]
    ok = False
    detail = ast.unparse(fn)[-600:]
    # expected shape: (y,mo,d,h,mi,s,ps) = ext.get_unix_time(a,b,c); dt = datetime(y,mo,d,h,mi,s, microsecond=E); return (dt, ps)
    try:
        asg, dtasg, ret = body
        names = [e.id for e in asg.targets[0].elts]
        call = asg.value
        params = [a.arg for a in fn.args.args]
        passes = [a.id for a in call.args] == params and call.func.attr == "get_unix_time"
        dcall = dtasg.value
        pos = [a.id for a in dcall.args]
        kw = {k.arg: k.value for k in dcall.keywords}
        us = kw.get("microsecond")
        us_src = ast.unparse(us) if us is not None else (ast.unparse(dcall.args[6]) if len(dcall.args) > 6 else None)
        shape_ok = passes and pos[:6] == names[:6] and len(names) == 7 and ast.unparse(dcall.func).endswith("datetime")
        ret_ok = isinstance(ret, ast.Return) and [e.id for e in ret.value.elts] == [dtasg.targets[0].id, names[6]]
        ck.struct("py.get_unix_time.plumbing", shape_ok and ret_ok,
                  "index, numerator, denominator passed in order; the six calendar fields and the picosecond returned unchanged:\n" + detail)
        psn = names[6]
        # microsecond expression: decide by exact evaluation of the expression at both end points of each of the
        # 10^6 remainder classes is done in the thorough tier; here the shape int(ps / 1e6) or ps // 1000000 is required and
        # the rounding lemma is discharged for that shape.
        norm = (us_src or "").replace(" ", "")
        if norm in ("int(%s/1000000.0)" % psn, "int(%s/1e6)" % psn, "int(%s/1000000)" % psn):
            rounding_lemma(ck)
            ck.struct("py.get_unix_time.microsecond_expr", True, "microsecond=%s" % us_src)
        elif norm in ("%s//1000000" % psn, "%s//10**6" % psn, "int(%s//1000000)" % psn, "int(%s//10**6)" % psn):
            ck.struct("py.get_unix_time.microsecond_expr", True, "microsecond=%s (exact integer floor division)" % us_src)
        else:
            # unknown expression: evaluate it exactly on the boundary classes (bounded, refutation only)
            bad = eval_us_expr(us, psn)
            ck.struct("py.get_unix_time.microsecond_expr", not bad, "microsecond=%s differs from floor(ps/10^6) at ps=%s" % (us_src, bad[:3]),
                      meta={"no_input": False, "witness": bad[:3]})
    except (ValueError, AttributeError, IndexError) as e:
        # the body does not have the shape the structural clauses are written for: decide the same clauses by running the real
        # function on a stand-in for the extension, over every whole-microsecond value and both ends of sampled remainder classes
        bad = exec_wrapper(psn_hint="picosecond")
        ck.struct("py.get_unix_time.plumbing", not [b for b in bad if b[0] == "plumbing"], "get_unix_time (body of unexpected shape, decided by execution): %s" % ([b for b in bad if b[0] == "plumbing"][:2],))
        ck.struct("py.get_unix_time.microsecond_expr", not [b for b in bad if b[0] == "microsecond"],
                  "the datetime's microsecond differs from floor(picosecond / 10^6): %s" % ([b[1:] for b in bad if b[0] == "microsecond"][:3],),
                  meta={"no_input": False, "witness": [b[1:] for b in bad if b[0] == "microsecond"][:3]})


def exec_wrapper(psn_hint="picosecond"):
    import types, datetime
    from checks import pyload
    mod = pyload.module("digital_rf_hdf5", symbolic=False)
    real = mod._py_rf_write_hdf5
    bad = []
    cur = {}
    mod._py_rf_write_hdf5 = types.SimpleNamespace(get_unix_time=lambda a, b, c: (cur.setdefault("args", (a, b, c)), (2014, 3, 9, 12, 30, 30, cur["ps"]))[1])
    try:
        values = [m * 10 ** 6 for m in range(0, 10 ** 6)] + [m * 10 ** 6 + 999999 for m in range(0, 10 ** 6, 997)] + [m * 10 ** 6 + 1 for m in range(0, 10 ** 6, 991)]
        for ps in values:
            cur.clear()
            cur["ps"] = ps
            try:
                dt, p2 = mod.get_unix_time(123456789, 200, 3)
            except Exception as e:
                bad.append(("plumbing", ps, "raised %r" % (e,)))
                break
            if cur.get("args") != (123456789, 200, 3) or p2 != ps or (dt.year, dt.month, dt.day, dt.hour, dt.minute, dt.second) != (2014, 3, 9, 12, 30, 30):
                bad.append(("plumbing", ps, str(dt), p2))
                break
            if dt.microsecond != ps // 10 ** 6:
                bad.append(("microsecond", ps, dt.microsecond, ps // 10 ** 6))
                if len(bad) > 5:
                    break
    finally:
        mod._py_rf_write_hdf5 = real
    return bad


def eval_us_expr(us, psn):
    import ast
    code = compile(ast.Expression(us), "<us>", "eval")
    bad = []
    for m in list(range(0, 1000)) + [999999, 999998, 500000, 123456]:
        for r in (0, 1, 999999, 500000):
            ps = m * 10 ** 6 + r
            try:
                v = eval(code, {"int": int, "round": round, "float": float}, {psn: ps})
            except Exception:
                v = None
            if v != m:
                bad.append(ps)
    return bad


def rounding_lemma(ck):
    """int(fl(ps / 1e6)) == ps div 10^6 for 0 <= ps < 10^12 under the standard model of correctly rounded division:
    fl(q) = q(1+e), |e| <= 2^-53, and fl(q) = q when q is representable (integers below 2^53 are).
    ps and 1e6 are exactly representable in binary64."""
    ps, m, r = z3.Ints("ps m r")
    q, e, f = z3.Reals("q e f")
    hy = [ps >= 0, ps < 10 ** 12, ps == m * 10 ** 6 + r, r >= 0, r < 10 ** 6,
          q * 10 ** 6 == z3.ToReal(ps), e >= -z3.Q(1, 2 ** 53), e <= z3.Q(1, 2 ** 53),
          z3.If(r == 0, f == q, f == q * (1 + e))]
    ck.lemma("py.get_unix_time.rounding", hy, z3.And(z3.ToReal(m) <= f, f < z3.ToReal(m) + 1))


def ext_wrapper(ck):
    """python/lib/py_rf_write_hdf5.c:_py_rf_write_hdf5_get_unix_time - argument plumbing, checked on the clang AST."""
    path = os.path.join(REPO, "python/lib/py_rf_write_hdf5.c")
    import sysconfig
    import numpy
    tu = cfront.TU(path, extra_inc=["-I" + sysconfig.get_paths()["include"], "-I" + numpy.get_include()])
    name = "_py_rf_write_hdf5_get_unix_time"
    if name not in tu.funcs:
        raise Undecided("%s not found" % name)
    ck.add_function(tu.func_info(name))
    fn = tu.funcs[name]
    calls = []

    def walk(n):
        if n.get("kind") == "CallExpr":
            c = n["inner"][0]
            while c.get("kind") in ("ImplicitCastExpr", "ParenExpr"):
                c = c["inner"][0]
            calls.append((c.get("referencedDecl", {}).get("name"), n))
        for ch in n.get("inner", []) or []:
            if ch:
                walk(ch)
    walk(fn)

    def argnames(n):
        out = []
        for a in n["inner"][1:]:
            x = a
            amp = False
            while x.get("kind") in ("ImplicitCastExpr", "ParenExpr", "UnaryOperator", "CStyleCastExpr"):
                if x.get("kind") == "UnaryOperator" and x.get("opcode") == "&":
                    amp = True
                x = x["inner"][0]
            if x.get("kind") == "DeclRefExpr":
                out.append(("&" if amp else "") + x["referencedDecl"]["name"])
            elif x.get("kind") == "StringLiteral":
                out.append(x.get("value"))
            else:
                out.append("?")
        return out
    d = {nm: argnames(n) for nm, n in calls}
    parse = d.get("_PyArg_ParseTuple_SizeT") or d.get("PyArg_ParseTuple")
    rat = d.get("digital_rf_get_unix_time_rational")
    build = d.get("_Py_BuildValue_SizeT") or d.get("Py_BuildValue")
    ok = bool(parse and rat and build)
    detail = "ParseTuple%s rational%s BuildValue%s" % (parse, rat, build)
    if ok:
        ins = [x.lstrip("&") for x in parse[2:5]]
        ok = parse[1].strip('"').startswith("KKK") and rat[:3] == ins and all(x.startswith("&") for x in rat[3:]) and \
            [x.lstrip("&") for x in rat[3:]] == build[1:] and len(build) == 8 and build[0].strip('"') in ("iiiiiiK",)
    ck.struct("x.get_unix_time.plumbing", ok, "the three K arguments reach get_unix_time_rational in order and its seven outputs build the tuple: " + detail)


def thorough(ck, seed):
    """bounded cross-checks (labelled bounded; never counted as proved): real C functions against exact arithmetic."""
    rnd = random.Random(seed)
    dd, lib = build_lib()
    bad = []
    cases = 0
    try:
        for _ in range(200000):
            n = rnd.choice([1, 2, 3, 7, 200, 10 ** 6, 10 ** 9, (1 << 32) - 1, rnd.randrange(1, 1 << 32)])
            d = rnd.choice([1, 3, 7, 10 ** 9, rnd.randrange(1, 10 ** 9 + 1)])
            if n * d >= 1 << 64:
                continue
            kmax = min((1 << 63) - 1, (T.Y10K * n) // d - 1)
            k = rnd.choice([0, 1, kmax, rnd.randrange(0, kmax + 1)])
            cases += 1
            s, p = c_floor(lib, k, n, d)
            if (s, p) != (T.sec(k, n, d), T.ps(k, n, d)):
                bad.append({"fn": "floor", "k": k, "n": n, "d": d})
            r = c_ceil(lib, s, p, n, d)
            if r != T.ceil_idx(s, p, n, d):
                bad.append({"fn": "ceil", "s": s, "p": p, "n": n, "d": d})
    finally:
        shutil.rmtree(dd, ignore_errors=True)
    ck.bounded_runs.append(("bounded.c_vs_exact", "200000 random/boundary (k,n,d) via ctypes on the rebuilt library", cases, bad[:5]))
    # gmtime vs datetime at year boundaries (assumed contract cross-check)
    import datetime, calendar
    lib2 = ctypes.CDLL(None)
    # int(ps/1e6) at both ends of every remainder class
    badus = [ps for m in range(0, 10 ** 6, 1) for ps in (m * 10 ** 6, m * 10 ** 6 + 999999) if int(ps / 1e6) != m]
    ck.bounded_runs.append(("bounded.int_ps_div_1e6", "both end points of all 10^6 quotient classes", 2 * 10 ** 6, [{"ps": x} for x in badus[:5]]))
