"""Last-file / last-directory / last-write getters under contract (C19): the C functions on a symbolic record, the extension
wrappers (value handed over unchanged, block freed), and the Python methods (extension while open, the values stored by close()
afterwards)."""
import os, types, sysconfig
import z3
from dvc.core import *
from dvc import cfront, cext
from contracts import c_obj
from checks import pyload


def c_getters(ck, tu, X):
    want = {
        "digital_rf_get_last_file_written": lambda: (("sym", "DIR"), "/", ("sym", "SUBDIR0"), "/"),
        "digital_rf_get_last_dir_written": lambda: (("sym", "DIR"), "/", ("sym", "SUBDIR0"), "/"),
    }
    for fn in ("digital_rf_get_last_file_written", "digital_rf_get_last_dir_written", "digital_rf_get_last_write_time"):
        if fn not in tu.funcs:
            raise Undecided(fn + " not found")
        ck.add_function(tu.func_info(fn))
        for null in (False, True):
            it = cfront.CInterp(tu, externals=X, config={"prune_full": False})
            st = State()
            wptr, wf = c_obj.make_writer(it, st, subdir_null=z3.BoolVal(null))
            w0 = st.mem[wptr.obj]
            paths = it.run_function(fn, st, [wptr], {"overflow": "wrap"})
            tag = "%s(%s)" % (fn, "nothing written yet" if null else "after a write")
            ck.struct("get.single_path", len(paths) == 1, "%s: %d paths" % (tag, len(paths)), {"attr": tag})
            for s, rv in paths:
                ck.struct("get.frame", s.mem[wptr.obj] is w0 and not [e for e in s.trace if e.name not in ("malloc", "strlen")],
                          "%s must not change the record or touch the file system: %s" % (tag, [e.name for e in s.trace][:4]), {"attr": tag})
                if fn == "digital_rf_get_last_write_time":
                    ok = isinstance(rv, z3.ExprRef) and z3.eq(rv, wf["last_utc_timestamp"])
                    ck.struct("get.last_write_time", ok, "%s returns %s, the record's last_utc_timestamp is %s" % (tag, rv, wf["last_utc_timestamp"]), {"attr": tag})
                    continue
                v = s.mem.get(rv.obj) if isinstance(rv, Ptr) and rv.obj is not None else None
                if not isinstance(v, SStr):
                    ck.struct("get.returns_string", False, "%s returns %r" % (tag, rv), {"attr": tag})
                    continue
                if null:
                    ck.struct("get.empty_before_first_write", v.parts == (), "%s returns %r, expected the empty string" % (tag, v), {"attr": tag})
                    continue
                parts = list(v.parts)
                head = list(want[fn]())
                ok = [p if isinstance(p, str) else p[:2] for p in parts[:4]] == [p if isinstance(p, str) else p[:2] for p in head]
                if fn.endswith("file_written"):
                    # <directory>/<sub_directory>/<the record's basename from "rf" on> (the tmp. prefix of the open file is cut off)
                    tail = parts[4:]
                    ok = ok and len(tail) == 1 and isinstance(tail[0], tuple) and tail[0][0] == "suffix_from" and tail[0][2] == "rf" \
                        and tail[0][1] == repr(wf["basename"].key())
                else:
                    ok = ok and len(parts) == 4
                ck.struct("get.path_of_the_record", ok, "%s returns %r" % (tag, v), {"attr": tag})


def ext_getters(ck):
    import numpy
    path = os.path.join(cfront.REPO, "python/lib/py_rf_write_hdf5.c")
    tu = cfront.TU(path, extra_inc=["-I" + sysconfig.get_paths()["include"], "-I" + numpy.get_include()])
    X = cext.make_externals()
    for fname, cfn, fmt in (("_py_rf_write_hdf5_get_last_file_written", "digital_rf_get_last_file_written", "s"),
                            ("_py_rf_write_hdf5_get_last_dir_written", "digital_rf_get_last_dir_written", "s"),
                            ("_py_rf_write_hdf5_get_last_utc_timestamp", "digital_rf_get_last_write_time", "K")):
        if fname not in tu.funcs:
            raise Undecided(fname + " not found")
        ck.add_function(tu.func_info(fname))
        st = State()
        it0 = cfront.CInterp(tu)
        wptr, wf = c_obj.make_writer(it0, st)
        caps = st.new_obj(StructVal({"_capsule": 1}), "capsule")
        E = dict(X)

        def parse(interp, s, args, n):
            s = s.copy()
            interp.store(s, (args[2].obj, tuple(args[2].path)), Ptr(caps, 0), n["_line"])
            return [(s, 1)]
        E["PyArg_ParseTuple"] = parse
        E["_PyArg_ParseTuple_SizeT"] = parse
        E["PyCapsule_GetPointer"] = lambda interp, s, args, n: [(s, wptr)]
        rec = {}

        def getter(interp, s, args, n):
            s = s.copy()
            s.trace.append(Effect(cfn, list(args), None, n["_line"], interp.func))
            if fmt == "s":
                oid = s.new_obj(SStr((("sym", "RESULT"),)), "heap_result")
                return [(s, Ptr(oid, 0))]
            return [(s, z3.Int("RESULT"))]
        for nm in ("digital_rf_get_last_file_written", "digital_rf_get_last_dir_written", "digital_rf_get_last_write_time"):
            E[nm] = getter if nm == cfn else (lambda interp, s, args, n, nm=nm: (_ for _ in ()).throw(Undecided("%s calls %s" % (fname, nm))))

        def build(interp, s, args, n):
            s = s.copy()
            a1 = args[1]
            snap = s.mem.get(a1.obj) if isinstance(a1, Ptr) and a1.obj is not None else a1
            s.trace.append(Effect("Py_BuildValue", [args[0], snap, a1], None, n["_line"], interp.func))
            oid = s.new_obj(StructVal({"_pyobj": 1}), "retobj")
            return [(s, Ptr(oid, 0))]
        E["Py_BuildValue"] = build
        E["_Py_BuildValue_SizeT"] = build

        def free(interp, s, args, n):
            s = s.copy()
            s.trace.append(Effect("free", list(args), None, n["_line"], interp.func))
            return [(s, None)]
        E["free"] = free
        it = cfront.CInterp(tu, externals=E, config={"prune_full": False})
        selfp, argsp = Ptr(st.new_obj(Opaque("self"), "self"), 0), Ptr(st.new_obj(Opaque("args"), "args"), 0)
        paths = it.run_function(fname, st, [selfp, argsp], {"overflow": "wrap"})
        for s, rv in paths:
            names = [e.name for e in s.trace]
            if cfn not in names:
                continue
            call = [e for e in s.trace if e.name == cfn][0]
            okc = len(call.args) == 1 and isinstance(call.args[0], Ptr) and call.args[0].obj == wptr.obj and names.count(cfn) == 1
            ck.struct("x.get.calls_the_getter_on_the_channel", okc, "%s: %s" % (fname, names), {"attr": fname})
            bv = [e for e in s.trace if e.name == "Py_BuildValue"]
            okb = len(bv) == 1 and isinstance(rv, Ptr) and rv.obj is not None
            if okb:
                v = bv[0].args[1]
                if fmt == "s":
                    okb = isinstance(v, SStr) and v.key() == SStr((("sym", "RESULT"),)).key()
                    # the block is released only after the Python string was built from it
                    fr = [i for i, e in enumerate(s.trace) if e.name == "free"]
                    okb = okb and len(fr) == 1 and fr[0] > s.trace.index(bv[0])
                else:
                    okb = isinstance(v, z3.ExprRef) and z3.eq(v, z3.Int("RESULT"))
            ck.struct("x.get.returns_the_getters_value", bool(okb), "%s: Py_BuildValue(%s) / trace %s" % (fname, [str(e.args[:2])[:80] for e in bv], names), {"attr": fname})


def py_getters(ck):
    mod = pyload.module("digital_rf_hdf5", symbolic=False)
    W = mod.DigitalRFWriter
    for nm in ("get_last_file_written", "get_last_dir_written", "get_last_utc_timestamp", "close", "get_next_available_sample", "get_total_samples_written", "get_total_gap_samples"):
        ck.add_function(pyload.source_info(mod, "DigitalRFWriter." + nm))
    real = mod._py_rf_write_hdf5
    calls = []
    CH = object()
    fake = types.SimpleNamespace(get_last_file_written=lambda ch: (calls.append(("file", ch)), "<file>")[1],
                                 get_last_dir_written=lambda ch: (calls.append(("dir", ch)), "<dir>")[1],
                                 get_last_utc_timestamp=lambda ch: (calls.append(("time", ch)), 1234)[1])
    mod._py_rf_write_hdf5 = fake
    try:
        w = object.__new__(W)
        w._channelObj = CH
        open_vals = (w.get_last_file_written(), w.get_last_dir_written(), w.get_last_utc_timestamp())
        ok_open = open_vals == ("<file>", "<dir>", 1234) and calls == [("file", CH), ("dir", CH), ("time", CH)]
        ck.struct("py.get.open_writer_asks_the_extension", ok_open, "values %s, calls %s" % (open_vals, calls), {})
        del calls[:]
        w.close()
        closed = not hasattr(w, "_channelObj")
        after = (w.get_last_file_written(), w.get_last_dir_written(), w.get_last_utc_timestamp())
        n_after = len(calls)
        ck.struct("py.get.values_survive_close", closed and after == ("<file>", "<dir>", 1234) and n_after == 3,
                  "after close: channel released=%s values %s (extension calls during close: %d)" % (closed, after, n_after), {})
        w.close()       # closing twice is harmless
        ck.struct("py.get.close_twice", (w.get_last_file_written(), w.get_last_dir_written(), w.get_last_utc_timestamp()) == ("<file>", "<dir>", 1234), "second close lost the stored values", {})
        w2 = object.__new__(W)
        w2._next_avail_sample, w2._total_samples_written, w2._total_gap_samples = 111, 70, 41
        ck.struct("py.get.counters", (w2.get_next_available_sample(), w2.get_total_samples_written(), w2.get_total_gap_samples()) == (111, 70, 41),
                  "counter getters return %s for (next, written, gaps) = (111, 70, 41)" % ((w2.get_next_available_sample(), w2.get_total_samples_written(), w2.get_total_gap_samples()),), {})
    except Exception as e:
        ck.struct("py.get.total", False, "getter raised %r" % (e,), {})
    finally:
        mod._py_rf_write_hdf5 = real


def add_getters(ck, tu, X):
    c_getters(ck, tu, X)
    ext_getters(ck)
    py_getters(ck)
