"""Reader bounds under contract (C08, C11): _get_first_sample / _get_last_sample on a file satisfying the per-file index
invariant, _top_level_dir_properties._get_bounds over a directory listing with unreadable / corrupt files, and the merge
of DigitalRFReader.get_bounds over several top-level directories.  The real methods run on symbolic values (dvc/pysym)."""
import os, types, itertools
import z3
from dvc.core import *
from dvc import pysym
from checks import pyload


class _Rows:
    """rf_data_index stand-in: rows[i][j] with python (negative) indexing, symbolic cells"""
    def __init__(self, rows):
        self.rows = rows
        self.shape = (len(rows), 2)

    def __getitem__(self, k):
        if isinstance(k, tuple):
            return self.rows[k[0]][k[1]]
        return self.rows[k]

    def __len__(self):
        return len(self.rows)


class _File(dict):
    def __enter__(self):
        return self

    def __exit__(self, *a):
        self.closed = True
        return False

    def close(self):
        self.closed = True


def file_edges(ck, mod, rmax, owner):
    """first / last sample of one file from its index: first = g[0]; last = g[R-1] + (len - off[R-1]) - 1"""
    cls = mod._top_level_dir_properties
    LEN = z3.Int("rf_data_len")
    import h5py as real_h5py
    for nm in ("_get_first_sample", "_get_last_sample"):
        ck.add_function(pyload.source_info(mod, "_top_level_dir_properties." + nm))
        func = "digital_rf_hdf5._top_level_dir_properties." + nm
        for R in range(1, rmax + 1):
            g = [z3.Int("g%d" % i) for i in range(R)]
            off = [z3.Int("off%d" % i) for i in range(R)]
            inv = [off[0] == 0, g[0] >= 0, off[R - 1] < LEN]
            for i in range(R - 1):
                inv += [g[i] < g[i + 1], off[i] < off[i + 1], g[i + 1] - g[i] >= off[i + 1] - off[i]]
            def mk():
                opened = []
                rows = [(pysym.SymInt(g[i]), pysym.SymInt(off[i])) for i in range(R)]

                def File(name, mode="r", **kw):
                    opened.append((name, mode))
                    f = _File({"rf_data": types.SimpleNamespace(shape=(pysym.SymInt(LEN), 1)), "rf_data_index": _Rows(rows)})
                    return f
                mod.h5py = types.SimpleNamespace(File=File)
                return (types.SimpleNamespace(), "/top/ch/sub/rf@1.000.h5"), {}, opened
            try:
                outs = pysym.explore(getattr(cls, nm), mk, inv, max_paths=200)
            finally:
                mod.h5py = real_h5py
            for oc in outs:
                meta = {"shape": "rows=%d" % R}
                if oc.kind != "return":
                    ck.add([Obl("bounds.file_edge.total", func, 0, oc.pc, z3.BoolVal(False), kind="post", meta=meta)])
                    continue
                ck.struct("bounds.file_edge.opens_readonly", list(oc.extra) == [("/top/ch/sub/rf@1.000.h5", "r")], "opened %s" % (oc.extra,), {"attr": nm + " rows=%d" % R})
                want = g[0] if nm == "_get_first_sample" else g[R - 1] + (LEN - off[R - 1]) - 1
                o = Obl("bounds.file_edge.%s" % nm.strip("_"), func, 0, oc.pc, pysym.Zt(oc.value) == want, kind="post", meta=meta)
                o.bounded = "<= %d index rows per file (all values symbolic)" % rmax
                ck.add([o])
            ck.add(pysym.obligations_of(outs, func))


def dir_bounds(ck, mod, nmax):
    """_get_bounds of one top-level directory: first sample of the first readable data file in ascending order, last sample of the
    first readable data file in descending order; unreadable / corrupt files are skipped; only data files are listed"""
    cls = mod._top_level_dir_properties
    ck.add_function(pyload.source_info(mod, "_top_level_dir_properties._get_bounds"))
    func = "digital_rf_hdf5._top_level_dir_properties._get_bounds"
    real_list = mod.list_drf
    real_print = mod.__dict__.get("print")
    kinds = ("ok", "ioerror", "corrupt")
    n_cases = 0
    for n in range(0, nmax + 1):
        for status in itertools.product(kinds, repeat=n):
            files = ["/top/ch/sub/rf@%d.000.h5" % i for i in range(n)]
            F = {f: z3.Int("first[%d]" % i) for i, f in enumerate(files)}
            Lq = {f: z3.Int("last[%d]" % i) for i, f in enumerate(files)}
            st = dict(zip(files, status))
            def mk():
                calls = []

                def ilsdrf(path, **kw):
                    calls.append((path, dict(kw)))
                    return iter(list(reversed(files)) if kw.get("reverse") else list(files))
                mod.list_drf = types.SimpleNamespace(ilsdrf=ilsdrf)
                mod.__dict__["print"] = lambda *a, **k: None

                def edge(tab):
                    def f(path):
                        if st[path] == "ioerror":
                            raise IOError("gone")
                        if st[path] == "corrupt":
                            raise KeyError("rf_data_index")
                        return pysym.SymInt(tab[path])
                    return f
                self_ = types.SimpleNamespace(access_mode="local", top_level_dir="/top", channel_name="ch", _get_first_sample=edge(F), _get_last_sample=edge(Lq))
                return (self_,), {}, calls
            try:
                outs = pysym.explore(cls._get_bounds, mk, [], max_paths=50)
            finally:
                mod.list_drf = real_list
                if real_print is None:
                    mod.__dict__.pop("print", None)
                else:
                    mod.__dict__["print"] = real_print
            n_cases += 1
            tag = "files=%s" % (list(status),)
            good = [f for f in files if st[f] == "ok"]
            for oc in outs:
                if oc.kind != "return":
                    ck.struct("bounds.dir.total", False, "%s: raised %r" % (tag, oc.value), {"attr": tag})
                    continue
                cl = oc.extra
                okc = len(cl) == 2 and all(c[0] == os.path.join("/top", "ch") and c[1].get("include_drf", True) is True and c[1].get("include_dmd", True) is False
                                           and c[1].get("include_drf_properties") in (False, None) and c[1].get("recursive", True) is False for c in cl) \
                    and [bool(c[1].get("reverse")) for c in cl] == [False, True]
                ck.struct("bounds.dir.lists_data_files_only", okc, "%s: ilsdrf calls %s" % (tag, cl), {"attr": tag})
                v = oc.value
                if not good:
                    ck.struct("bounds.dir.empty_is_none", tuple(v) == (None, None), "%s: returned %r" % (tag, v), {"attr": tag})
                else:
                    okv = isinstance(v, tuple) and len(v) == 2 and v[0] is not None and v[1] is not None
                    ck.struct("bounds.dir.nonempty_has_bounds", okv, "%s: returned %r" % (tag, v), {"attr": tag})
                    if okv:
                        o = Obl("bounds.dir.first_and_last_readable", func, 0, oc.pc, z3.And(pysym.Zt(v[0]) == F[good[0]], pysym.Zt(v[1]) == Lq[good[-1]]), kind="post", meta={"shape": tag})
                        o.bounded = "<= %d data files in the directory listing, each ok / vanished / corrupt" % nmax
                        ck.add([o])
    ck.extra["bounds_dir_cases"] = n_cases


def merge_bounds(ck, mod, nmax):
    """DigitalRFReader.get_bounds: (min of the first samples, max of the last samples) over the top-level directories that hold data"""
    fn = mod.DigitalRFReader.get_bounds
    ck.add_function(pyload.source_info(mod, "DigitalRFReader.get_bounds"))
    func = "digital_rf_hdf5.DigitalRFReader.get_bounds"
    for n in range(0, nmax + 1):
        for has in itertools.product((True, False), repeat=n):
            f = [z3.Int("dir_first[%d]" % i) for i in range(n)]
            l = [z3.Int("dir_last[%d]" % i) for i in range(n)]
            hy = [z3.And(f[i] >= 0, f[i] <= l[i]) for i in range(n) if has[i]]

            def mk():
                tl = []
                for i in range(n):
                    r = (pysym.SymInt(f[i]), pysym.SymInt(l[i])) if has[i] else (None, None)
                    tl.append(types.SimpleNamespace(_get_bounds=(lambda r=r: r)))
                self_ = types.SimpleNamespace(_channel_dict={"ch": types.SimpleNamespace(top_level_dir_meta_list=tl)})
                return (self_, "ch"), {}, None
            outs = pysym.explore(fn, mk, hy, max_paths=400)
            tag = "dirs=%s" % (["data" if h else "empty" for h in has],)
            idx = [i for i in range(n) if has[i]]
            for oc in outs:
                if oc.kind != "return":
                    ck.add([Obl("bounds.merge.total", func, 0, oc.pc, z3.BoolVal(False), kind="post", meta={"shape": tag})])
                    continue
                v = oc.value
                if not idx:
                    ck.struct("bounds.merge.empty_is_none", tuple(v) == (None, None), "%s: returned %r" % (tag, v), {"attr": tag})
                    continue
                okv = isinstance(v, tuple) and len(v) == 2 and v[0] is not None and v[1] is not None
                ck.struct("bounds.merge.nonempty_has_bounds", okv, "%s: returned %r" % (tag, v), {"attr": tag})
                if not okv:
                    continue
                a, b = pysym.Zt(v[0]), pysym.Zt(v[1])
                goal = z3.And([a <= f[i] for i in idx] + [b >= l[i] for i in idx] + [z3.Or([a == f[i] for i in idx]), z3.Or([b == l[i] for i in idx])])
                o = Obl("bounds.merge.min_first_max_last", func, 0, oc.pc, goal, kind="post", meta={"shape": tag})
                o.bounded = "<= %d top-level directories (all values symbolic)" % nmax
                ck.add([o])
            ck.add(pysym.obligations_of(outs, func))


def add_bounds(ck, mod, tier, owner):
    file_edges(ck, mod, 4 if tier == "thorough" else 3, owner)
    dir_bounds(ck, mod, 4 if tier == "thorough" else 3)
    merge_bounds(ck, mod, 4 if tier == "thorough" else 3)
