"""C14 - listing is sound, complete, ordered and window-exact."""
import os, itertools
import z3
from dvc.core import *
from dvc import cfront, harness, pysym
from checks import pyload, replay_py


def slice_contract(ck, ld, nmax):
    """list_drf._decorated_list_slice on the real function: for every list length <= nmax (times symbolic, sorted),
    every combination of starttime/endtime given or None and ffill: the slice selects exactly the window (plus the
    forward-fill element)."""
    f = ld._decorated_list_slice
    ck.add_function(pyload.source_info(ld, "_decorated_list_slice"))
    S, E = z3.Int("starttime"), z3.Int("endtime")
    nobl = 0
    for n in range(0, nmax + 1):
        ts = [z3.Int("t%d" % i) for i in range(n)]
        base = [ts[i] <= ts[i + 1] for i in range(n - 1)]
        for has_s, has_e, ffill in itertools.product((False, True), (False, True), (False, True)):
            hyp = list(base) + ([S <= E] if has_s and has_e else [])

            def mk():
                lst = [(pysym.SymInt(ts[i]), "f%d" % i) for i in range(n)]
                return (lst,), dict(starttime=pysym.SymInt(S) if has_s else None, endtime=pysym.SymInt(E) if has_e else None, ffill=ffill), None
            outs = pysym.explore(f, mk, hyp)
            if not outs:
                raise EngineError("no path through _decorated_list_slice")
            shape = "n=%d start=%s end=%s ffill=%s" % (n, has_s, has_e, ffill)
            for oc in outs:
                if oc.kind != "return" or not isinstance(oc.value, slice):
                    ck.add([Obl("slice.total", "list_drf._decorated_list_slice", 0, oc.pc, z3.BoolVal(False), kind="post", meta={"shape": shape, "n": n})])
                    continue
                ks, ke = oc.value.start, oc.value.stop
                if pysym.is_sym(ks) or pysym.is_sym(ke):
                    raise Undecided("symbolic slice bounds")
                sel = set(range(ks, ke)) if ks < ke else set()
                goals = []
                inwin = lambda i: z3.And(ts[i] >= S if has_s else True, ts[i] <= E if has_e else True)
                before = lambda i: (ts[i] < S) if has_s else z3.BoolVal(False)
                for i in range(n):
                    if i in sel:
                        # allowed: in the window, or (forward fill) one of the latest elements before start
                        latest_before = z3.And(before(i), z3.And([z3.Or(z3.Not(before(j)), ts[j] <= ts[i]) for j in range(n)]))
                        goals.append(z3.Or(inwin(i), z3.And(bool(ffill), latest_before) if ffill else z3.BoolVal(False)))
                    else:
                        goals.append(z3.Not(inwin(i)))
                # at most one element before start is selected
                nb = [i for i in sel]
                if has_s and len(nb) > 1:
                    goals.append(z3.Sum([z3.If(before(i), 1, 0) for i in nb]) <= 1)
                # forward fill required: some element before start, none exactly on start -> one before start is selected
                if ffill and has_s and n:
                    need = z3.And(z3.Or([before(i) for i in range(n)]), z3.And([ts[i] != S for i in range(n)]))
                    have = z3.Or([before(i) for i in sel]) if sel else z3.BoolVal(False)
                    goals.append(z3.Implies(need, have))
                ck.add([Obl("slice.window", "list_drf._decorated_list_slice", 0, oc.pc, z3.And(goals) if goals else z3.BoolVal(True), kind="post",
                            meta={"shape": shape, "n": n, "slice": (ks, ke), "syms": {"S": S, "E": E}})])
                nobl += 1
            ck.add(pysym.obligations_of(outs, "list_drf._decorated_list_slice"))
    for o in ck.obls:
        if o.label.startswith("slice."):
            o.bounded = "list length <= %d (times symbolic)" % nmax
    return nobl


def grammar(ck, ld):
    """file-name grammar: exhaustive evaluation of the real compiled regexes over a bounded grammar (enumeration, not deduction)"""
    names = []
    for pre in ("", "tmp.", "x", "tmp", ".tmp."):
        for stem in ("rf", "metadata", "a@b", ""):
            for sec in ("1474491360", "0", "", "12a"):
                for frac in (None, "000", "999", "00", "0000", "abc"):
                    for ext in (".h5", ".h5.tmp", ".hdf5", ""):
                        nm = pre + stem + "@" + sec + ("" if frac is None else "." + frac) + ext
                        names.append(nm)
    names += ["drf_properties.h5", "dmd_properties.h5", "metadata.h5", "tmp.drf_properties.h5", "properties.h5", "rf@1.000.h5/", "RF@1.000.H5"]
    import re
    bad = []
    n = 0
    for nm in set(names):
        for rx, kind in ((ld._RE_DRFFILE, "drf"), (ld._RE_DMDFILE, "dmd"), (ld._RE_FILE, "any")):
            n += 1
            m = bool(rx.match(nm))
            # specification: <name>@<digits>[.<3 digits>].h5, name non-empty and not starting with 'tmp.'
            mm = re.fullmatch(r"(.+?)@([0-9]+)(?:\.([0-9]{3}))?\.h5", nm)
            want = False
            if mm and not nm.startswith("tmp."):
                # the name group is non-greedy: it ends at the first '@' from which the rest parses
                want = (kind == "any") or (kind == "drf" and mm.group(3) is not None) or (kind == "dmd" and mm.group(3) is None)
                if kind in ("drf", "dmd"):
                    # re-parse precisely for the kind
                    want = bool(re.fullmatch(r"(.+?)@([0-9]+)\.([0-9]{3})\.h5" if kind == "drf" else r"(.+?)@([0-9]+)\.h5", nm))
            if m != want:
                bad.append((nm, kind, m, want))
            if m and nm.startswith("tmp."):
                bad.append((nm, kind, "tmp name matched", None))
    ck.enumerations.append(("match.grammar", n, len(bad), bad[:3]))
    ck.struct("match.grammar", not bad, "regex and grammar disagree on %s" % bad[:4], {"no_input": False})
    ck.struct("ilsdrf.never_tmp", not any(b[2] == "tmp name matched" for b in bad), "a 'tmp.' name is matched by a listing regex", {})


def replay_listing(o, model):
    r = replay_py.run_driver("list_oracle.py", {"seed": 3, "trees": 600, "queries": 6, "max_failures": 1})
    if r["failures"]:
        f = r["failures"][0]
        return True, "lsdrf on a generated tree: %s\n  case: %s" % (f["what"], str(f.get("case"))[:600]), f
    return False, "no deviation of lsdrf from the listing specification on %d generated queries" % r["cases"], None


def run(tier, seed, replay=None):
    ck = harness.Check("C14", tier, seed, level="other")
    ld = pyload.module("list_drf")
    slice_contract(ck, ld, 4 if tier == "thorough" else 3)
    grammar(ck, ld)
    from checks import list_common
    list_common.decorate_contract(ck, ld)
    if tier == "thorough":
        list_common.yield_contract(ck, ld, 3, 1)
        list_common.yield_contract(ck, ld, 2, 2, skip=lambda c: max(c, default=0) < 2)
    else:
        list_common.yield_contract(ck, ld, 2, 1)
        list_common.yield_contract(ck, ld, 1, 2, skip=lambda c: max(c, default=0) < 2)      # two files in one subdirectory: the sort matters
    list_common.walk_contract(ck, ld)
    ck.replayers["walk."] = replay_listing
    ck.replayers["yield."] = replay_listing
    ck.replayers["decorate."] = replay_listing
    for nm in ("_yield_matching_files", "ilsdrf", "_decorate_drf_files"):
        ck.add_function(pyload.source_info(ld, nm))
    ck.replayers["slice."] = replay_listing
    ck.discharge()
    # bounded stand-in for _yield_matching_files / ilsdrf (os.walk, os.listdir, regexes): real lsdrf vs set-theoretic oracle
    ntrees = 4000 if tier == "thorough" else 400
    r = replay_py.run_driver("list_oracle.py", {"seed": seed, "trees": ntrees, "queries": 6, "max_failures": 3}, timeout=3000)
    ck.bounded_runs.append(("bounded.lsdrf_vs_spec", "%d generated trees x 6 queries (nested RF/metadata/legacy channels, empty subdirs, stray and tmp files, all flags, windows on file/subdir edges)" % ntrees,
                            r["cases"], r["failures"]))
    ck.trust({"bisect.bisect_left": "standard contract (executed, CPython)", "os.walk/os.listdir/re": "executed, not deduced (bounded differential only)"})
    ck.assumptions += ["ilsdrf (walk order, property-file flags, recursion) is checked against the channel lister's contract on enumerated virtual trees x all flag combinations, and by the bounded differential on real trees; the start-directory-is-a-timestamped-subdirectory branch only by the differential"]
    ck.extra["explanation"] = ("window slice: path-complete symbolic execution of the real _decorated_list_slice for all list lengths <= bound with symbolic times; "
                               "channel listing: path-complete symbolic execution of the real _yield_matching_files generator over bounded directory shapes with symbolic times against the window/order/look-back contract; "
                               "grammar: exhaustive regex evaluation over a bounded name grammar; directory walk: bounded differential against the specification")
    return ck
