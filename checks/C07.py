"""C07 - continuous-mode gap fill semantics."""
import os, struct, sys, itertools
import z3
from dvc.core import *
from dvc import cfront, cext, harness
from contracts import c_obj, c_fs
from checks import step_common, replay_writer

CSRC = os.path.join(cfront.REPO, "c/lib/rf_write_hdf5.c")
H5T_INTEGER, H5T_FLOAT = 0, 1
LE, BE = 0, 1
SGN_NONE, SGN_2 = 0, 1


def host_bytes(v, size, is_float):
    """bytes of a C object of the host (little-endian) holding value v"""
    if isinstance(v, tuple) and v and v[0] == "nan":
        return struct.pack("<f", float("nan")) if v[1] == 32 else struct.pack("<d", float("nan"))
    if isinstance(v, Opaque) or v is None:
        return None
    v = int(v)
    return (v % (1 << (8 * size))).to_bytes(size, "little")


def decode(b, cls, size, sign, order):
    raw = b if order == LE else b[::-1]
    if cls == H5T_FLOAT:
        x = struct.unpack("<f" if size == 4 else "<d", raw)[0]
        return "nan" if x != x else x
    return int.from_bytes(raw, "little", signed=(sign == SGN_2))


def expected(cls, size, sign):
    if cls == H5T_FLOAT:
        return "nan"
    return -(1 << (8 * size - 1)) if sign == SGN_2 else 0


def fill_table(ck, tu, X):
    name = "digital_rf_set_fill_value"
    if name not in tu.funcs:
        raise Undecided(name + " not found")
    if sys.byteorder != "little":
        raise Undecided("the fill-value obligations are stated for a little-endian host")
    ck.add_function(tu.func_info(name))
    ck.add_function(tu.func_info("digital_rf_is_little_endian"))
    contracts = {"digital_rf_is_little_endian": lambda interp, st, args, n: [(st, 1)]}
    it = cfront.CInterp(tu, contracts=contracts, externals=X, config={"prune_full": True})
    st = State()
    wptr, wf = c_obj.make_writer(it, st)
    q = lambda nm: z3.Function("q_" + nm, z3.IntSort(), z3.IntSort())(wf["dtype_id"])
    cls, size, sign, order, cplx = q("H5Tget_class"), q("H5Tget_size"), q("H5Tget_sign"), q("H5Tget_order"), wf["is_complex"]
    st.assume(z3.Or(cplx == 0, cplx == 1))
    paths = it.run_function(name, st, [wptr], {"overflow": "wrap"})
    cells = list(itertools.product((H5T_INTEGER, H5T_FLOAT), (1, 2, 4, 8), (SGN_NONE, SGN_2), (LE, BE), (0, 1)))
    covered = {}
    for s, rv in paths:
        fills = [e for e in s.trace if e.name == "H5Pset_fill_value"]
        for cell in cells:
            c_, sz, sg, od, cx = cell
            if c_ == H5T_FLOAT and (sz not in (4, 8) or sg != SGN_2):
                continue
            cond = z3.And(cls == c_, size == sz, sign == sg, order == od, cplx == cx)
            sol = z3.Solver()
            sol.set("timeout", 3000)
            sol.add(s.pc)
            sol.add(cond)
            if sol.check() != z3.sat:
                continue
            tag = "class=%s size=%d %s %s %s" % ("FLOAT" if c_ else "INTEGER", sz, "signed" if sg else "unsigned", "BE" if od else "LE", "complex" if cx else "real")
            meta = {"cell": tag, "class": c_, "size": sz, "sign": sg, "order": od, "complex": cx}
            if is_conc(rv) and rv != 0:
                covered[cell] = ("rejected", tag)
                ck.struct("fill.cell", False, "%s: set_fill_value rejects a supported element type" % tag, meta)
                continue
            if len(fills) != 1:
                ck.struct("fill.cell", False, "%s: expected exactly one H5Pset_fill_value call, got %d" % (tag, len(fills)), meta)
                continue
            e = fills[0]
            typ = e.args[1]
            want_type = wf["complex_dtype_id"] if cx else wf["dtype_id"]
            type_ok = isinstance(typ, z3.ExprRef) and z3.eq(typ, want_type)
            pv = e.args[2]
            val = None
            if isinstance(pv, tuple) and pv[0] == "ptr":
                val = pv[2]
                ptr = pv[1]
                if isinstance(val, list):
                    idx = ptr.idx
                    if not is_conc(idx):
                        m = sol.model()
                        idx = m.eval(Z(idx), model_completion=True).as_long()
                    val = val[int(idx)] if 0 <= int(idx) < len(val) else None
            comps = []
            if isinstance(val, StructVal):
                comps = [val.fields.get("r"), val.fields.get("i")]
                shape_ok = bool(cx) and set(val.fields) == {"r", "i"}
            else:
                comps = [val]
                shape_ok = not cx
            decoded = []
            ok = type_ok and shape_ok
            for comp in comps:
                hb = host_bytes(comp, sz, c_ == H5T_FLOAT)
                if hb is None or len(hb) != sz:
                    # the C object passed is wider than the element (e.g. int64 zero for every unsigned width): take the leading bytes
                    if hb is None and is_conc(comp):
                        hb = host_bytes(comp, sz, False)
                    if hb is None:
                        ok = False
                        decoded.append("?")
                        continue
                d = decode(hb[:sz], c_, sz, sg, od)
                decoded.append(d)
                if d != expected(c_, sz, sg):
                    ok = False
            covered[cell] = ("ok" if ok else "bad", tag)
            ck.struct("fill.cell", ok, "%s: gap fill decodes to %s, documented missing value is %s%s" % (
                tag, decoded, expected(c_, sz, sg), "" if type_ok else " (wrong HDF5 type passed)"), meta)
    need = [c for c in cells if not (c[0] == H5T_FLOAT and (c[1] not in (4, 8) or c[2] != SGN_2))]
    missing = [c for c in need if c not in covered]
    ck.struct("fill.all_cells_covered", not missing, "element-type cells reached by no path: %s" % missing[:5], {})
    ck.extra["fill_cells"] = len(covered)


def chunking_rule(ck, tu, X):
    """needs_chunking = checksum || compression_level != 0 || is_continuous != 1 on every successful init path"""
    name = "digital_rf_create_write_hdf5"
    fn = tu.funcs.get(name)
    if fn is None:
        raise Undecided(name + " not found")
    ck.add_function(tu.func_info(name))
    params = [c for c in fn["inner"] if c.get("kind") == "ParmVarDecl"]
    st = State()
    args, sym = [], {}

    def stub(nm, ret):
        def h(interp, s, a, n):
            return [(s, ret() if callable(ret) else ret)]
        return h
    stubs = {"digital_rf_check_hdf5_directory": stub("c", lambda: fresh_int("chk")), "digital_rf_close_write_hdf5": stub("c", 0),
             "digital_rf_set_fill_value": stub("c", lambda: fresh_int("fill")), "digital_rf_handle_metadata": stub("c", lambda: fresh_int("hm"))}
    it = cfront.CInterp(tu, contracts=stubs, externals=X)
    for p in params:
        ct = it.ctype(cfront.qtype(p))
        if ct.kind == "ptr":
            args.append(Ptr(st.new_obj(SStr((("sym", p["name"].upper()),)), p["name"]), 0))
        else:
            v = z3.Int(p["name"])
            lo, hi = ct.rng()
            st.pc.append(z3.And(v >= lo, v <= hi))
            sym[p["name"]] = v
            args.append(v)
    for nm in ("checksum", "compression_level", "is_continuous"):
        if nm not in sym:
            raise Undecided("parameter %s of %s renamed" % (nm, name))
    n = 0
    for s, rv in it.run_function(name, st, args, {"overflow": "wrap"}):
        if isinstance(rv, Ptr) and rv.obj is not None:
            n += 1
            w = s.mem[rv.obj]
            it.func = name
            want = z3.If(z3.Or(sym["checksum"] != 0, sym["compression_level"] != 0, sym["is_continuous"] != 1), 1, 0)
            it.oblige(s, "cont.chunked_as_gapped", Z(w.fields["needs_chunking"]) == want, fn["_line"], kind="post")
            it.oblige(s, "cont.mode_recorded", Z(w.fields["is_continuous"]) == sym["is_continuous"], fn["_line"], kind="post")
    if not n:
        raise EngineError("no successful path through " + name)
    ck.add(it.obls)


def run(tier, seed, replay=None):
    ck = harness.Check("C07", tier, seed, level="other")
    tu = cfront.TU(CSRC)
    X = cext.make_externals()
    fill_table(ck, tu, X)
    chunking_rule(ck, tu, X)
    step_common.add_step_obligations(ck, tu, X, want=("C07",), units=("step",))
    # the single index row of a continuous file (index_len = 1 in that mode): one-block instance of the index function's rows clause
    from contracts import c_index
    import z3 as _z3
    it1 = cfront.CInterp(tu, externals=X)
    c_index.verify_index_success(it1, 1)
    extra = []
    for o in it1.obls:
        if o.label in (c_index.INDEX_FN + ".rows", c_index.INDEX_FN + ".row_count", c_index.INDEX_FN + ".accepts_wellformed"):
            extra.append(Obl(o.label + ".continuous_single_row", o.func, o.line, list(o.hyps) + [_z3.Int("w.is_continuous") != 0, _z3.Int("w.needs_chunking") == 0],
                             o.goal, kind=o.kind, meta={"L": 1}, qhyps=list(getattr(o, "qhyps", []))))
    ck.add(extra)
    ck.add_function(tu.func_info(c_index.INDEX_FN))
    ck.replayers[c_index.INDEX_FN] = replay_writer.replay
    for pref in ("step.",):
        ck.replayers.setdefault(pref, replay_writer.replay)
    ck.discharge()
    ck.extra["explanation"] = ("fill-value table: every (class,size,sign,byte order,complex) cell enumerated over the paths of the real set_fill_value "
                               "(finite domain, complete); full-size dataset / write offset / single index row of continuous unchunked files are postconditions of the write step")
    ck.assumptions += ["host is little-endian (checked at run time; digital_rf_is_little_endian assumed to return 1 on it)",
                       "HDF5 returns the fill value for unwritten elements and converts it by the dataset's type",
                       "NAN is the quiet NaN 0x7FC00000 / 0x7FF8000000000000"]
    return ck
