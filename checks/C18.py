"""C18 - cp / mv / ln transfer exactly the listed set."""
import os, inspect, argparse
from dvc.core import *
from dvc import harness
from checks import pyload, replay_py


def cli_contract(ck, ld, dc):
    """argument plumbing: whatever the parsers produce, the keyword arguments handed to ilsdrf are parameters of ilsdrf
    and carry the parsed option values"""
    sig = set(inspect.signature(ld.ilsdrf).parameters) - {"path"}
    for cmd, builder in (("cp", ld._build_cp_parser), ("mv", ld._build_mv_parser), ("ln", ld._build_ln_parser)):
        parser = builder(argparse.ArgumentParser)
        for argv, expect in (
            (["S", "D"], {}),
            (["-c", "a,b", "-c", "c", "--only", "-R", "--nodrf", "--dmdprops", "-s", "2017-01-01T00:00:00", "-e", "2017-01-02T00:00:00", "S", "D"],
             {"recursive": False, "reverse": True, "include_drf": False, "include_dmd_properties": True}),
            (["--nodmd", "--nodrfprops", "S", "D"], {"include_dmd": False, "include_drf_properties": False}),
        ):
            a = parser.parse_args(argv)
            if cmd == "ln":
                if not hasattr(a, "symbolic"):
                    ck.struct("cli.kwargs", False, "ln parser lost --symbolic", {"attr": cmd})
                    continue
                del a.symbolic
            a2, kw = ld._parse_srcdest_args(a)
            ok = set(kw) <= sig and all(kw.get(k) == v for k, v in expect.items())
            if "-s" in argv:
                ok = ok and kw.get("starttime") is not None and kw.get("endtime") is not None and kw["starttime"] < kw["endtime"]
            ck.struct("cli.kwargs", ok, "%s %s -> ilsdrf kwargs %s (parameters of ilsdrf: %s)" % (cmd, argv, kw, sorted(sig)), {"attr": cmd + " " + " ".join(argv[:3])})
            if "-c" in argv:
                want = [(os.path.abspath("S") + "/" + c, os.path.abspath("D") + "/" + c) for c in ("a", "b", "c")]
                ck.struct("cli.channels", a2.srcdests == want, "-c a,b -c c -> %s" % (a2.srcdests,), {"attr": cmd})
        ck.struct("cli.wiring." + cmd, parser.get_default("func") is getattr(ld, "_run_" + cmd), "%s must run _run_%s" % (cmd, cmd), {})
    src = inspect.getsource(dc.main)
    ck.struct("cli.subcommands", all(("_build_%s_parser(subparsers.add_parser, \"%s\")" % (c, c)) in src for c in ("cp", "ln", "mv", "ls")),
              "drf_command.main must register cp, ln, ls, mv with their parser builders", {})


def replay_transfer(o, model):
    r = replay_py.run_driver("transfer_oracle.py", {"seed": 19, "cases": 400, "max_failures": 1})
    if r["failures"]:
        f = r["failures"][0]
        return True, "drf transfer on a generated tree: %s\n  case: %s" % (f["what"], str(f.get("case"))[:400]), f
    return False, "no deviation in %d transfers" % r["cases"], None


def run(tier, seed, replay=None):
    ck = harness.Check("C18", tier, seed, level="other")
    ld = pyload.module("list_drf", symbolic=False)
    dc = pyload.module("drf_command", symbolic=False)
    cli_contract(ck, ld, dc)
    for nm in ("_parse_srcdest_args", "_run_cp", "_run_ln", "_run_mv"):
        ck.add_function(pyload.source_info(ld, nm))
    ck.add_function(pyload.source_info(dc, "main"))
    n = 3000 if tier == "thorough" else 300
    r = replay_py.run_driver("transfer_oracle.py", {"seed": seed, "cases": n, "max_failures": 3}, timeout=3000)
    ck.bounded_runs.append(("bounded.transfer_vs_listing", "%d generated trees x random command (cp/mv/ln/ln --symbolic) and options (channel lists incl. 'ch/' and './ch', --only, -R, time window, include flags): destination set = listing set at the same relative paths, content / link identity, source unchanged or exactly the transferred files removed" % n,
                            r["cases"], r["failures"]))
    ck.trust({"argparse store/store_true/append": "executed", "shutil.copy2/move, os.link/symlink": "assumed to transfer the content"})
    ck.assumptions += ["the listing itself is checked in C14; here the transfer loops are covered by the bounded differential (labelled bounded)"]
    ck.extra["explanation"] = "argument plumbing checked on the real parsers; the transfer loops by a bounded differential against the equivalent listing"
    return ck
