"""C18 - cp / mv / ln transfer exactly the listed set."""
import os, inspect, argparse
from dvc.core import *
from dvc import harness
from checks import pyload, replay_py


def cli_contract(ck, ld, dc):
    """argument plumbing: whatever the parsers produce, the keyword arguments handed to ilsdrf are parameters of ilsdrf
    and carry the parsed option values"""
    sig = set(inspect.signature(ld.ilsdrf).parameters) - {"path"}
    for cmd, builder in (("cp", ld._build_cp_parser), ("mv", ld._build_mv_parser), ("ln", ld._build_ln_parser)):
        parser = builder(argparse.ArgumentParser)
        for argv, expect in (
            (["S", "D"], {}),
            (["-c", "a,b", "-c", "c", "--only", "-R", "--nodrf", "--dmdprops", "-s", "2017-01-01T00:00:00", "-e", "2017-01-02T00:00:00", "S", "D"],
             {"recursive": False, "reverse": True, "include_drf": False, "include_dmd_properties": True}),
            (["--nodmd", "--nodrfprops", "S", "D"], {"include_dmd": False, "include_drf_properties": False}),
        ):
            a = parser.parse_args(argv)
            if cmd == "ln":
                if not hasattr(a, "symbolic"):
                    ck.struct("cli.kwargs", False, "ln parser lost --symbolic", {"attr": cmd})
                    continue
                del a.symbolic
            a2, kw = ld._parse_srcdest_args(a)
            ok = set(kw) <= sig and all(kw.get(k) == v for k, v in expect.items())
            if "-s" in argv:
                ok = ok and kw.get("starttime") is not None and kw.get("endtime") is not None and kw["starttime"] < kw["endtime"]
            ck.struct("cli.kwargs", ok, "%s %s -> ilsdrf kwargs %s (parameters of ilsdrf: %s)" % (cmd, argv, kw, sorted(sig)), {"attr": cmd + " " + " ".join(argv[:3])})
            if "-c" in argv:
                want = [(os.path.abspath("S") + "/" + c, os.path.abspath("D") + "/" + c) for c in ("a", "b", "c")]
                ck.struct("cli.channels", a2.srcdests == want, "-c a,b -c c -> %s" % (a2.srcdests,), {"attr": cmd})
        ck.struct("cli.wiring." + cmd, parser.get_default("func") is getattr(ld, "_run_" + cmd), "%s must run _run_%s" % (cmd, cmd), {})
    src = inspect.getsource(dc.main)
    ck.struct("cli.subcommands", all(("_build_%s_parser(subparsers.add_parser, \"%s\")" % (c, c)) in src for c in ("cp", "ln", "mv", "ls")),
              "drf_command.main must register cp, ln, ls, mv with their parser builders", {})


def transfer_contract(ck, ld):
    """_run_cp / _run_mv / _run_ln against the contract of ilsdrf (modular): on a recording stand-in for os / shutil, for every
    (src, dest) pair the listing is asked once with the parsed options, and every listed file gets exactly one transfer of the
    command's kind to dest/<path relative to src>, in listing order, after its directory exists; nothing else is touched."""
    import types, itertools, argparse
    real = {k: ld.__dict__[k] for k in ("os", "shutil", "ilsdrf")}
    rels = ["drf_properties.h5", "2017-01-01T00-00-00/rf@1483228800.000.h5", "2017-01-01T00-00-00/rf@1483228801.000.h5", "metadata/dmd_properties.h5",
            "metadata/2017-01-01T00-00-00/metadata@1483228800.h5"]
    ncase = 0
    for cmd, sym in (("cp", None), ("mv", None), ("ln", False), ("ln", True)):
        builder = getattr(ld, "_build_%s_parser" % cmd)
        for chs, listing, pre in itertools.product(([], ["ch"], ["ch/"], ["./ch"], ["a,b"], ["a", " b "], ["ch10,ch1"]), ([], rels[:1], rels), (False, True)):
            parser = builder(argparse.ArgumentParser)
            argv = []
            for c in chs:
                argv += ["-c", c]
            if sym:
                argv.append("--symbolic")
            argv += ["-R", "--nodmdprops", "/S/root", "/D/root"]
            a = parser.parse_args(argv)
            trace = []
            made = set()

            def exists(p_):
                return pre or os.path.normpath(p_) in made

            def makedirs(p_, *x, **k):
                trace.append(("makedirs", p_))
                made.add(os.path.normpath(p_))

            def lister(path, **kw):
                trace.append(("ilsdrf", path, dict(kw)))
                # as os.walk hands paths over: os.path.join(top, relative)
                return iter([os.path.join(path, r) for r in listing])

            def op(name):
                def f(s_, d_, *x, **k):
                    trace.append((name, s_, d_))
                return f
            fake_os = types.SimpleNamespace(path=types.SimpleNamespace(**{k: getattr(os.path, k) for k in ("join", "relpath", "dirname", "abspath", "normpath", "basename", "sep", "split")}, exists=exists),
                                            makedirs=makedirs, link=op("os.link"), symlink=op("os.symlink"), sep=os.sep, getcwd=os.getcwd, curdir=os.curdir)
            fake_sh = types.SimpleNamespace(copy2=op("shutil.copy2"), move=op("shutil.move"))
            ld.os, ld.shutil, ld.ilsdrf = fake_os, fake_sh, lister
            err = None
            try:
                getattr(ld, "_run_" + cmd)(a)
            except Exception as e:
                err = e
            finally:
                for k, v in real.items():
                    ld.__dict__[k] = v
            ncase += 1
            tag = "%s%s -c %s listing=%d dest-dirs-%s" % (cmd, " --symbolic" if sym else "", chs, len(listing), "exist" if pre else "absent")
            names = [b.strip() for c in chs for b in c.strip().split(",")] or [None]
            want_op = {"cp": "shutil.copy2", "mv": "shutil.move"}.get(cmd, "os.symlink" if sym else "os.link")
            ok = err is None
            detail = "raised %r" % (err,) if err else ""
            if ok:
                calls = [t for t in trace if t[0] == "ilsdrf"]
                srcs = [os.path.join("/S/root", nm) if nm is not None else "/S/root" for nm in names]
                dsts = [os.path.join("/D/root", nm) if nm is not None else "/D/root" for nm in names]
                ok = [c[1] for c in calls] == srcs and all(c[2].get("reverse") is True and c[2].get("include_dmd_properties") is False and c[2].get("recursive") is True
                                                           and "symbolic" not in c[2] and "src" not in c[2] for c in calls)
                detail = "listing calls %s" % calls
                if ok:
                    # split the trace per pair and compare with the expected transfers
                    it = iter(trace)
                    pos = 0
                    exp_made = set()
                    for s_, d_ in zip(srcs, dsts):
                        seg_ok = trace[pos][0] == "ilsdrf"
                        pos += 1
                        for r in listing:
                            dest = os.path.normpath(os.path.join(d_, r))
                            ddir = os.path.dirname(dest)
                            if not pre and ddir not in exp_made:
                                seg_ok = seg_ok and pos < len(trace) and trace[pos][0] == "makedirs" and os.path.normpath(trace[pos][1]) == ddir
                                exp_made.add(ddir)
                                pos += 1
                            seg_ok = seg_ok and pos < len(trace) and trace[pos][0] == want_op and trace[pos][1] == os.path.join(s_, r) and os.path.normpath(trace[pos][2]) == dest
                            pos += 1
                        ok = ok and seg_ok
                    ok = ok and pos == len(trace)
                    detail = "trace %s" % (trace[:8],)
            ck.struct("transfer.exactly_the_listing", bool(ok), "%s: %s" % (tag, detail), {"attr": tag})
    ck.enumerations.append(("transfer.exactly_the_listing", ncase, 0, []))


def replay_transfer(o, model):
    r = replay_py.run_driver("transfer_oracle.py", {"seed": 19, "cases": 400, "max_failures": 1})
    if r["failures"]:
        f = r["failures"][0]
        return True, "drf transfer on a generated tree: %s\n  case: %s" % (f["what"], str(f.get("case"))[:400]), f
    return False, "no deviation in %d transfers" % r["cases"], None


def run(tier, seed, replay=None):
    ck = harness.Check("C18", tier, seed, level="other")
    ld = pyload.module("list_drf", symbolic=False)
    dc = pyload.module("drf_command", symbolic=False)
    cli_contract(ck, ld, dc)
    transfer_contract(ck, ld)
    ck.replayers["transfer."] = replay_transfer
    ck.replayers["cli."] = replay_transfer
    for nm in ("_parse_srcdest_args", "_run_cp", "_run_ln", "_run_mv"):
        ck.add_function(pyload.source_info(ld, nm))
    ck.add_function(pyload.source_info(dc, "main"))
    n = 3000 if tier == "thorough" else 300
    r = replay_py.run_driver("transfer_oracle.py", {"seed": seed, "cases": n, "max_failures": 3}, timeout=3000)
    ck.bounded_runs.append(("bounded.transfer_vs_listing", "%d generated trees x random command (cp/mv/ln/ln --symbolic) and options (channel lists incl. 'ch/' and './ch', --only, -R, time window, include flags): destination set = listing set at the same relative paths, content / link identity, source unchanged or exactly the transferred files removed" % n,
                            r["cases"], r["failures"]))
    ck.trust({"argparse store/store_true/append": "executed", "shutil.copy2/move, os.link/symlink": "assumed to transfer the content"})
    ck.assumptions += ["the listing itself is checked in C14; the transfer loops are checked against the listing's contract on a recording stand-in for os/shutil over enumerated channel-argument forms and listings, and by the bounded differential on real trees"]
    ck.extra["explanation"] = "argument plumbing checked on the real parsers; the transfer loops by a bounded differential against the equivalent listing"
    return ck
