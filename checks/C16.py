"""C16 - ringbuffer: deletes only what it must, oldest first, with exact accounting."""
import os, ast, itertools, collections
import z3
from dvc.core import *
from dvc import cfront, harness, pysym
from checks import pyload, replay_py

GA, GB = ("/watch/chA", "rf"), ("/watch/chB", "rf")
UNIVERSE = {GA: ["/watch/chA/d/rf@1.000.h5", "/watch/chA/d/rf@2.000.h5", "/watch/chA/d/rf@3.000.h5"],
            GB: ["/watch/chB/d/rf@1.000.h5", "/watch/chB/d/rf@2.000.h5"]}


class FakeOS:
    """stands in for the os module inside ringbuffer.py: records the effects (assumed contracts of remove/rmdir)"""
    def __init__(self):
        self.calls = []
        self.path = os.path
        self.sep = os.sep

    def remove(self, p):
        self.calls.append(("remove", p))

    def rmdir(self, p):
        self.calls.append(("rmdir", p))
        raise OSError("directory not empty")

    def stat(self, p):
        raise OSError("not used")


def K(p):
    return z3.Int("key[%s]" % os.path.basename(p))


def SZ(p, tag=""):
    return z3.Int("size%s[%s/%s]" % (tag, p.split("/")[2], os.path.basename(p)))


def shapes(maxper):
    """tracked sets: per group an ordered list (ascending key) of tracked paths"""
    out = []
    for na in range(0, maxper + 1):
        for nb in range(0, min(maxper, 2) + 1):
            for pa in itertools.permutations(UNIVERSE[GA], na):
                for pb in itertools.permutations(UNIVERSE[GB], nb):
                    out.append({GA: list(pa), GB: list(pb)})
    return out


def build(rb, limits, shape, fake):
    size, count, duration = limits
    kw = {}
    if size:
        kw["size"] = pysym.SymInt(z3.Int("limit_size"))
    if count:
        kw["count"] = count
    if duration:
        kw["duration"] = pysym.SymInt(z3.Int("limit_duration"))
    h = rb.DigitalRFRingbufferHandler(**kw)
    total = 0
    for g, paths in shape.items():
        for p in paths:
            rec = h.FileRecord(key=pysym.SymInt(K(p)), size=pysym.SymInt(SZ(p)), path=p, group=g)
            h.records[p] = rec
            h.queues[g].append((rec.key, p))
            total = total + rec.size
    if size:
        h.active_size = total if shape[GA] or shape[GB] else 0
    return h


def pre(limits, shape, newp, newg, dup):
    size, count, duration = limits
    hy = []
    allp = [p for g in shape for p in shape[g]]
    for g, paths in shape.items():
        for a, b in zip(paths, paths[1:]):
            hy.append(K(a) < K(b))                       # queues sorted (wf2); keys of one channel are distinct file times
        if count:
            hy.append(z3.BoolVal(len(paths) <= count))
        if duration and paths:
            hy.append(K(paths[-1]) - K(paths[0]) <= z3.Int("limit_duration"))
    for p in allp + [newp]:
        hy += [K(p) >= 0, SZ(p) >= 0]
    hy.append(SZ(newp, "'") >= 0)
    if not dup:
        for p in shape[newg]:
            hy.append(K(p) != K(newp))
    if duration:
        hy.append(z3.Int("limit_duration") >= 0)
    if size:
        L = z3.Int("limit_size")
        hy.append(z3.Sum([SZ(p) for p in allp]) <= L if allp else L >= 0)
        # premise of the property: the size limit is at least one largest file per channel
        per = []
        for g in shape:
            cand = [SZ(p) for p in shape[g] if not (dup and p == newp)] + ([SZ(newp, "'")] if g == newg else [])
            if cand:
                m = z3.Int("maxsize[%s]" % g[0])
                hy += [m >= c for c in cand]
                per.append(m)
        if per:
            hy.append(L >= z3.Sum(per))
    return hy


def post(ck, op, limits, shape, newp, newg, dup, oc, tag):
    size, count, duration = limits
    h, fake = oc.extra
    func = "ringbuffer.%s" % op
    meta = {"shape": tag}
    O = lambda label, goal: ck.add([Obl("ring.%s.%s" % (op, label), func, 0, oc.pc, goal, kind="post", meta=meta)])
    if oc.kind != "return":
        O("total", z3.BoolVal(False))
        return
    qpaths = {g: [p for (_k, p) in h.queues[g]] for g in list(h.queues)}
    flat = [p for g in qpaths for p in qpaths[g]]
    ok1 = len(flat) == len(set(flat)) and set(flat) == set(h.records.keys()) and all(h.records[p].group == g for g in qpaths for p in qpaths[g])
    ck.struct("ring.%s.wf_tracked_set" % op, ok1, "%s: queues %s vs records %s" % (tag, qpaths, sorted(h.records)), meta)
    if not ok1:
        return
    goals = []
    for g in qpaths:
        q = list(h.queues[g])
        for (k1, p1), (k2, p2) in zip(q, q[1:]):
            goals.append(pysym.Zt(k1) <= pysym.Zt(k2))
        for (k1, p1) in q:
            goals.append(pysym.Zt(k1) == pysym.Zt(h.records[p1].key))
    O("wf_sorted", z3.And(goals) if goals else z3.BoolVal(True))
    if size:
        tot = z3.Sum([pysym.Zt(h.records[p].size) for p in h.records]) if h.records else z3.IntVal(0)
        O("wf_active_size", pysym.Zt(h.active_size) == tot)
    # view: every record that is still tracked carries the truth about its file - the size (and key) reported by the latest event for
    # the path of this event, the unchanged earlier values for every other path
    vg = []
    for q_ in h.records:
        r_ = h.records[q_]
        if q_ == newp and op in ("_add_record", "_modify_record"):
            vg += [pysym.Zt(r_.key) == K(newp)] + ([pysym.Zt(r_.size) == SZ(newp, "'")] if size else [])
        else:
            vg += [pysym.Zt(r_.key) == K(q_)] + ([pysym.Zt(r_.size) == SZ(q_)] if size else [])
    O("view_records_truth", z3.And(vg) if vg else z3.BoolVal(True))
    removed = [p for (c, p) in fake.calls if c == "remove"]
    before = {p for g in shape for p in shape[g]} | {newp}
    ck.struct("ring.%s.deletes_only_tracked" % op, all(p in before for p in removed) and not (set(removed) & set(h.records)) and len(removed) == len(set(removed)),
              "%s: removed %s" % (tag, removed), meta)
    og = []
    for r in removed:
        g = GA if r in UNIVERSE[GA] else GB
        kr = pysym.Zt(K(r))
        for q_ in qpaths.get(g, []):
            og.append(kr <= pysym.Zt(h.records[q_].key))
    if og:
        O("oldest_first", z3.And(og))
    if op == "_add_record":
        lg = []
        for g in qpaths:
            if count:
                ck.struct("ring._add_record.count_limit_restored", len(qpaths[g]) <= count, "%s: %d files in %s, limit %d" % (tag, len(qpaths[g]), g, count), meta)
            if duration and qpaths[g]:
                q = list(h.queues[g])
                lg.append(pysym.Zt(q[-1][0]) - pysym.Zt(q[0][0]) <= z3.Int("limit_duration"))
        if size:
            lg.append(pysym.Zt(h.active_size) <= z3.Int("limit_size"))
        if lg:
            O("limits_restored", z3.And(lg))
        if removed:
            # a deletion only happens when a configured limit is exceeded by the bookkeeping (which equals the truth, wf)
            exceeded = []
            n_before = len(shape[newg]) + (0 if dup else 1)
            if count:
                exceeded.append(z3.BoolVal(n_before > count))
            if size:
                allp = [p for g in shape for p in shape[g] if not (dup and p == newp)]
                exceeded.append(z3.Sum([SZ(p) for p in allp] + [SZ(newp, "'")]) > z3.Int("limit_size"))
            if duration:
                ks = [K(p) for p in shape[newg]] + [K(newp)]
                mx, mn = z3.Int("kmax"), z3.Int("kmin")
                exceeded.append(z3.Or([z3.And([a - b > z3.Int("limit_duration")]) for a in ks for b in ks]))
            O("deletes_only_if_limit_exceeded", z3.Or(exceeded) if exceeded else z3.BoolVal(False))


def delete_sites(ck, rb):
    """the only file deletions in ringbuffer.py are in _expire_oldest_from_group, on the path of the record popped for the queue head"""
    src = open(rb.__file__).read()
    tree = ast.parse(src)
    sites = []
    for node in ast.walk(tree):
        if isinstance(node, ast.FunctionDef):
            for c in ast.walk(node):
                if isinstance(c, ast.Call):
                    f = ast.unparse(c.func)
                    if f in ("os.remove", "os.unlink", "os.rmdir", "shutil.rmtree", "os.removedirs", "shutil.move", "os.rename", "os.replace"):
                        sites.append((node.name, f, ast.unparse(c.args[0]) if c.args else ""))
    allowed = {("_expire_oldest_from_group", "os.remove", "rec.path"), ("_expire_oldest_from_group", "os.rmdir", "head")}
    extra = [s for s in set(sites) if s not in allowed]
    ck.struct("ring.delete_sites", not extra and ("_expire_oldest_from_group", "os.remove", "rec.path") in sites,
              "file-system mutations in ringbuffer.py outside the queue-head expiry: %s" % extra, {})
    fn = [n for n in ast.walk(tree) if isinstance(n, ast.FunctionDef) and n.name == "_expire_oldest_from_group"]
    body = ast.unparse(fn[0]) if fn else ""
    ck.struct("ring.expire_takes_queue_head", "self.queues[group][0]" in body and "self.records.pop(path)" in body and "self._remove_from_queue(rec)" in body,
              "_expire_oldest_from_group must take the head of the group's queue, pop its record and remove it from the queue", {})


def event_wiring(ck, rb):
    """event handlers against the contracts of the record operations (modular): created -> add, deleted -> remove, modified -> modify,
    moved -> remove the source THEN add the destination (the moved file must not be counted twice while the limits are evaluated);
    batch calls handle every valid path once, oldest first, and skip paths that yield no record."""
    import types
    H = rb.DigitalRFRingbufferHandlerBase
    for nm in ("on_created", "on_deleted", "on_modified", "on_moved", "add_files", "modify_files", "remove_files"):
        ck.add_function(pyload.source_info(rb, "DigitalRFRingbufferHandlerBase." + nm))

    def mk():
        trace = []
        recs = {"/w/ch/s/rf@3.000.h5": (3, "r3"), "/w/ch/s/rf@1.000.h5": (1, "r1"), "/w/ch/s/rf@2.000.h5": (2, "r2"), "/w/ch/s/gone@9.000.h5": None}
        self_ = types.SimpleNamespace(_get_file_record=lambda p: recs.get(p),
                                      _add_record=lambda r: trace.append(("add", r)), _modify_record=lambda r: trace.append(("modify", r)),
                                      _remove_record=lambda p: trace.append(("remove", p)))
        for nm in ("add_files", "modify_files", "remove_files"):
            setattr(self_, nm, types.MethodType(getattr(H, nm), self_))
        return self_, trace
    ev = lambda src, dest=None: types.SimpleNamespace(src_path=src, dest_path=dest)
    a, b, c, g = "/w/ch/s/rf@1.000.h5", "/w/ch/s/rf@2.000.h5", "/w/ch/s/rf@3.000.h5", "/w/ch/s/gone@9.000.h5"
    cases = [
        ("on_created", lambda s: H.on_created(s, ev(a)), [("add", (1, "r1"))]),
        ("on_deleted", lambda s: H.on_deleted(s, ev(a)), [("remove", a)]),
        ("on_modified", lambda s: H.on_modified(s, ev(a)), [("modify", (1, "r1"))]),
        ("on_moved", lambda s: H.on_moved(s, ev(a, b)), [("remove", a), ("add", (2, "r2"))]),
        ("on_created(vanished)", lambda s: H.on_created(s, ev(g)), []),
        ("add_files", lambda s: H.add_files(s, [c, g, a, b]), [("add", (1, "r1")), ("add", (2, "r2")), ("add", (3, "r3"))]),
        ("modify_files", lambda s: H.modify_files(s, [c, a]), [("modify", (1, "r1")), ("modify", (3, "r3"))]),
        ("remove_files", lambda s: H.remove_files(s, [c, a]), [("remove", c), ("remove", a)]),
    ]
    for name, run, want in cases:
        self_, trace = mk()
        try:
            run(self_)
            got = list(trace)
        except Exception as e:
            got = "raised %r" % (e,)
        ck.struct("ring.events.%s" % name.split("(")[0], got == want, "%s: record operations %s, contract %s" % (name, got, want), {"attr": name})


def rescan_wiring(ck, rb):
    """DigitalRFRingbuffer._verify_ringbuffer_files (modular): the re-scan after a restart first drops the records of files that are gone,
    then adds the files it missed, then re-examines the rest - a record of a vanished file must not count against the limits while the
    missed files are added (a file is deleted only when a limit is actually exceeded)."""
    import types
    RBc = rb.DigitalRFRingbuffer
    ck.add_function(pyload.source_info(rb, "DigitalRFRingbuffer._verify_ringbuffer_files"))
    real_list = rb.list_drf
    trace = []
    ondisk = ["/w/ch/s/rf@1.000.h5", "/w/ch/s/rf@2.000.h5", "/w/ch/s/rf@4.000.h5"]
    inbuffer = {"/w/ch/s/rf@1.000.h5", "/w/ch/s/rf@2.000.h5", "/w/ch/s/rf@3.000.h5"}
    calls = []

    def ilsdrf(path, **kw):
        calls.append((path, dict(kw)))
        return iter(ondisk)
    rb.list_drf = types.SimpleNamespace(ilsdrf=ilsdrf)
    eh = types.SimpleNamespace(remove_files=lambda ps: trace.append(("remove", sorted(ps))), add_files=lambda ps, sort=True: trace.append(("add", sorted(ps), sort)),
                               modify_files=lambda ps, sort=True: trace.append(("modify", sorted(ps), sort)))
    self_ = types.SimpleNamespace(path="/w", starttime="S", endtime="E", include_drf=True, include_dmd=False, event_handler=eh)
    try:
        try:
            RBc._verify_ringbuffer_files(self_, set(inbuffer))
            got = list(trace)
        except Exception as e:
            got = "raised %r" % (e,)
    finally:
        rb.list_drf = real_list
    want = [("remove", ["/w/ch/s/rf@3.000.h5"]), ("add", sorted(ondisk), True), ("modify", ["/w/ch/s/rf@1.000.h5", "/w/ch/s/rf@2.000.h5"], True)]
    # adding only the missed files instead of all files on disk is equally fine (re-adding a tracked file is a no-op)
    alt = [want[0], ("add", ["/w/ch/s/rf@4.000.h5"], True), want[2]]
    ck.struct("ring.rescan.remove_then_add_then_modify", got in (want, alt), "re-scan performed %s, contract %s" % (got, want), {"attr": "rescan"})
    okl = len(calls) == 1 and calls[0][0] == "/w" and calls[0][1].get("starttime") == "S" and calls[0][1].get("endtime") == "E" and calls[0][1].get("include_drf") is True \
        and calls[0][1].get("include_dmd") is False and calls[0][1].get("include_drf_properties") is False and calls[0][1].get("include_dmd_properties") is False
    ck.struct("ring.rescan.lists_tracked_kinds_only", okl, "re-scan listing %s" % (calls,), {"attr": "rescan"})


def run(tier, seed, replay=None):
    ck = harness.Check("C16", tier, seed, level="other")
    rb = pyload.module("ringbuffer")
    fake_holder = {}
    limit_sets = [(True, None, False), (False, 1, False), (False, 2, False), (False, None, True), (True, 2, True)]
    if tier == "thorough":
        limit_sets += [(True, 1, False), (False, 2, True), (True, None, True)]
    maxper = 2
    nruns = 0
    for limits in limit_sets:
        for shape in shapes(maxper):
            if limits[1] and any(len(v) > limits[1] for v in shape.values()):
                continue
            # (a) add a new / duplicate record ; (b) modify ; (c) remove
            cands = []
            for g in (GA, GB):
                untracked = [p for p in UNIVERSE[g] if p not in shape[g]]
                if untracked:
                    cands.append(("_add_record", untracked[0], g, False))
                    cands.append(("_modify_record", untracked[0], g, False))
                if shape[g]:
                    cands.append(("_add_record", shape[g][-1], g, True))
                    cands.append(("_add_record", shape[g][0], g, True))
                    cands.append(("_modify_record", shape[g][0], g, True))
                    cands.append(("_remove_record", shape[g][0], g, True))
            cands.append(("_remove_record", UNIVERSE[GA][2], GA, False)) if UNIVERSE[GA][2] not in shape[GA] else None
            for op, p, g, dup in cands:
                tag = "limits(size=%s,count=%s,duration=%s) tracked=%s op=%s(%s)%s" % (limits[0], limits[1], limits[2],
                                                                                         {k[0][-3:]: [os.path.basename(x) for x in v] for k, v in shape.items()}, op, os.path.basename(p), " [duplicate]" if dup else "")
                hy = pre(limits, shape, p, g, dup)

                def mk():
                    fake = FakeOS()
                    rb.os = fake
                    h = build(rb, limits, shape, fake)
                    rec = h.FileRecord(key=pysym.SymInt(K(p)), size=pysym.SymInt(SZ(p, "'")), path=p, group=g)
                    fn = getattr(h, op)
                    return ((p,) if op == "_remove_record" else (rec,)), {}, (h, fake)

                def call(arg):
                    h, fake = call.holder
                    return getattr(h, op)(arg)
                # explore needs the bound method of the fresh handler: wrap
                def runner(arg, _holder=[None]):
                    return getattr(runner.h, op)(arg)

                def mk2():
                    a, kw, extra = mk()
                    runner.h = extra[0]
                    return a, kw, extra
                try:
                    outs = pysym.explore(runner, mk2, hy, max_paths=600)
                finally:
                    rb.os = os
                nruns += 1
                for oc in outs:
                    post(ck, op, limits, shape, p, g, dup, oc, tag)
                ck.add(pysym.obligations_of(outs, "ringbuffer." + op))
    delete_sites(ck, rb)
    event_wiring(ck, rb)
    rescan_wiring(ck, rb)
    for nm in ("DigitalRFRingbufferHandlerBase._add_to_queue", "DigitalRFRingbufferHandlerBase._remove_from_queue",
               "DigitalRFRingbufferHandlerBase._expire_oldest_from_group", "DigitalRFRingbufferHandlerBase._add_record",
               "DigitalRFRingbufferHandlerBase._modify_record", "DigitalRFRingbufferHandlerBase._remove_record",
               "CountExpirer._expire", "SizeExpirer._expire", "SizeExpirer._expire_oldest", "SizeExpirer._add_to_queue",
               "SizeExpirer._remove_from_queue", "SizeExpirer._modify_record", "TimeExpirer._expire"):
        ck.add_function(pyload.source_info(rb, nm))
    for o in ck.obls:
        o.bounded = "<= %d tracked files per channel, 2 channels, keys/sizes/limits symbolic" % maxper
    ck.extra["shapes_explored"] = nruns
    ck.replayers["ring."] = replay_ring
    ck.discharge()
    n = 3000 if tier == "thorough" else 300
    r = replay_py.run_driver("ring_history.py", {"seed": seed, "histories": n, "max_failures": 3}, timeout=3000)
    ck.bounded_runs.append(("bounded.ring_histories", "%d random event histories (created/duplicate/modified/deleted/moved/stale, 3 channels, all limit combinations) on real files" % n,
                            r["cases"], r["failures"]))
    ck.trust({"collections.deque / dict": "executed (CPython)", "os.remove/os.rmdir": "assumed: remove deletes exactly that path, rmdir only removes an empty directory"})
    ck.assumptions += ["representation invariant wf (tracked set = records, queues sorted, active_size = sum of sizes) is assumed before each operation and proved after it (inductive over any history)",
                       "premise of the property: size limit >= one largest file per channel"]
    ck.extra["explanation"] = "path-complete symbolic execution of the real handler methods (real mixin classes) on abstract states of bounded shape with symbolic keys, sizes and limits"
    return ck


def replay_ring(o, model):
    r = replay_py.run_driver("ring_history.py", {"seed": 5, "histories": 600, "max_failures": 1})
    if r["failures"]:
        f = r["failures"][0]
        return True, "ringbuffer handler on real files: %s\n  history: %s" % (f["what"], str(f.get("history"))[:500]), f
    return False, "no failing history among %d random ringbuffer histories" % r["cases"], None
