"""C06 third part: per-file attributes repeat the channel properties exactly; regeneration copies them."""
import os, ast
import z3
from dvc.core import *
from dvc import cfront, cext
from contracts import c_obj

SHARED = ["H5Tget_class", "H5Tget_size", "H5Tget_order", "H5Tget_precision", "H5Tget_offset", "subdir_cadence_secs", "file_cadence_millisecs",
          "sample_rate_numerator", "sample_rate_denominator", "is_complex", "num_subchannels", "is_continuous", "epoch",
          "digital_rf_time_description", "digital_rf_version"]
PER_FILE = ["sequence_num", "init_utc_timestamp", "computer_time", "uuid_str"]


def attr_map(trace):
    """name -> (create type, write type, value) from H5Acreate2/H5Awrite pairs of one path"""
    out = {}
    cur = None
    for e in trace:
        if e.name == "H5Acreate2":
            nm = e.args[1].text() if isinstance(e.args[1], SStr) else None
            cur = (nm, e.args[2], e.ret, e.args[0])
        elif e.name == "H5Awrite" and cur is not None:
            same_attr = isinstance(e.args[0], z3.ExprRef) and z3.eq(e.args[0], cur[2])
            v = e.args[2]
            if isinstance(v, tuple) and v[0] == "ptr":
                v = v[2]
            out[cur[0]] = {"ctype": cur[1], "wtype": e.args[1], "value": v, "same_attr": same_attr, "target": cur[3]}
            cur = None
    return out


def same_value(a, b):
    if isinstance(a, SStr) and isinstance(b, SStr):
        return a.key() == b.key()
    if isinstance(a, z3.ExprRef) and isinstance(b, z3.ExprRef):
        return z3.eq(z3.simplify(a), z3.simplify(b))
    if is_conc(a) and is_conc(b):
        return a == b
    if isinstance(a, Opaque) and isinstance(b, Opaque):
        return a is b
    return False


def same_type(a, b):
    # H5T_NATIVE_* macros read opaque globals: compare by tag
    ta = a.tag if isinstance(a, Opaque) else a
    tb = b.tag if isinstance(b, Opaque) else b
    if isinstance(ta, z3.ExprRef) and isinstance(tb, z3.ExprRef):
        # string attributes use a fresh copy of H5T_C_S1 sized to the value (H5Tcopy + H5Tset_size) in both places
        if str(ta).startswith("H5Tcopy") and str(tb).startswith("H5Tcopy"):
            return True
        return z3.eq(ta, tb)
    return ta == tb


def add_attr_obligations(ck, tu, X):
    it = cfront.CInterp(tu, externals=X, config={"prune_full": False})
    st = State()
    wptr, wf = c_obj.make_writer(it, st)
    st.assume(wf["dataset"] != 0)
    p1 = it.run_function("digital_rf_write_metadata", st, [wptr], {"overflow": "wrap"})
    if len(p1) != 1:
        raise Undecided("digital_rf_write_metadata is expected to be straight-line code (%d paths)" % len(p1))
    data_attrs = attr_map(p1[0][0].trace)
    ck.add_function(tu.func_info("digital_rf_write_metadata"))
    it2 = cfront.CInterp(tu, externals=X, config={"prune_full": False})
    st2 = State()
    wptr2, wf2 = c_obj.make_writer(it2, st2)
    # same symbolic record in both runs: field symbols are named by field, so expressions are comparable
    p2 = [(s, rv) for s, rv in it2.run_function("digital_rf_handle_metadata", st2, [wptr2], {"overflow": "wrap"})
          if any(e.name == "H5Fcreate" for e in s.trace) and is_conc(rv) and rv == 0]
    if len(p2) != 1:
        raise Undecided("expected exactly one successful create path in digital_rf_handle_metadata (%d)" % len(p2))
    prop_attrs = attr_map(p2[0][0].trace)
    for nm in SHARED:
        a, b = data_attrs.get(nm), prop_attrs.get(nm)
        ok = a is not None and b is not None and a["same_attr"] and b["same_attr"] and same_value(a["value"], b["value"]) \
            and same_type(a["ctype"], b["ctype"]) and same_type(a["wtype"], b["wtype"]) and same_type(a["ctype"], a["wtype"])
        ck.struct("attrs.same_expr", ok, "attribute %s: data file writes %s, properties file writes %s" % (
            nm, None if a is None else (a["ctype"], a["value"]), None if b is None else (b["ctype"], b["value"])), {"attr": nm})
    # absolute values: each attribute holds the channel property of the same name
    q = lambda nm: z3.Function("q_" + nm, z3.IntSort(), z3.IntSort())(wf["dtype_id"])
    for nm in SHARED[:12]:
        a = data_attrs.get(nm)
        if a is None:
            continue
        v = a["value"]
        if nm.startswith("H5Tget_"):
            ok = isinstance(v, z3.ExprRef) and any(z3.eq(z3.simplify(v), z3.simplify(w_)) for w_ in (q(nm), q(nm) % (1 << 64)))
        else:
            ok = isinstance(v, z3.ExprRef) and z3.eq(v, wf[nm])
        ck.struct("attrs.value", ok, "attribute %s must hold the channel's %s; the code writes %s" % (nm, nm, v), {"attr": nm})
    hdr = open(os.path.join(cfront.REPO, "c/include/digital_rf.h")).read()
    import re
    m = re.search(r'#define DIGITAL_RF_EPOCH "([^"]*)"', hdr)
    a = data_attrs.get("epoch")
    ck.struct("attrs.value", bool(m) and a is not None and isinstance(a["value"], SStr) and a["value"].text() == m.group(1) == "1970-01-01T00:00:00Z",
              "epoch attribute must be the format's epoch 1970-01-01T00:00:00Z", {"attr": "epoch"})
    ck.struct("attrs.properties_file_set", sorted(prop_attrs) == sorted(SHARED), "drf_properties.h5 attributes: %s" % sorted(prop_attrs), {})
    ck.struct("attrs.data_file_set", sorted(data_attrs) == sorted(SHARED + PER_FILE), "rf_data attributes: %s" % sorted(data_attrs), {})
    # per-file values
    w0 = wf
    exp = {"sequence_num": w0["present_seq"], "init_utc_timestamp": w0["init_utc_timestamp"]}
    for nm, want in exp.items():
        a = data_attrs.get(nm)
        ck.struct("attrs.per_file", a is not None and (same_value(a["value"], want) or (isinstance(a["value"], Opaque) and isinstance(want, Opaque))),
                  "attribute %s must be the record's %s; got %s" % (nm, nm, None if a is None else a["value"]), {"attr": nm})
    a = data_attrs.get("uuid_str")
    ck.struct("attrs.per_file", a is not None and isinstance(a["value"], SStr) and a["value"].key() == SStr((("sym", "UUID"),)).key(),
              "uuid_str attribute must be the session's UUID", {"attr": "uuid_str"})
    # attributes are attached to rf_data of the data file / the root group of the properties file
    ck.struct("attrs.targets", all(isinstance(v["target"], z3.ExprRef) and z3.eq(v["target"], wf["dataset"]) for v in data_attrs.values()),
              "per-file attributes must be attached to the rf_data dataset", {})
    # sequence number: present_seq is assigned only at init (-1) and incremented only in create_hdf5_file
    sites = []
    for fname, fn in tu.funcs.items():
        def walk(n):
            k = n.get("kind")
            if k in ("BinaryOperator", "CompoundAssignOperator", "UnaryOperator") and (n.get("opcode") in ("=", "+=", "-=", "++", "--")):
                tgt = n["inner"][0]
                while tgt.get("kind") in ("ParenExpr", "ImplicitCastExpr"):
                    tgt = tgt["inner"][0]
                if tgt.get("kind") == "MemberExpr" and tgt.get("name") == "present_seq":
                    sites.append((fname, n.get("opcode")))
            for c in n.get("inner", []) or []:
                if c:
                    walk(c)
        walk(fn)
    ck.struct("attrs.seq_monotone", sorted(sites) == [("digital_rf_create_hdf5_file", "++"), ("digital_rf_create_write_hdf5", "=")],
              "present_seq must be set at init and incremented exactly once per created file; assignment sites: %s" % sorted(sites), {})
    # regeneration (python): copies exactly the 15 shared names from a data file, refuses if the properties file is readable
    py = os.path.join(cfront.REPO, "python/digital_rf/digital_rf_hdf5.py")
    tree = ast.parse(open(py).read())
    fn = [n for n in tree.body if isinstance(n, ast.FunctionDef) and n.name == "recreate_properties_file"]
    if not fn:
        raise Undecided("recreate_properties_file not found")
    copied = []
    for n in ast.walk(fn[0]):
        if isinstance(n, ast.Assign) and len(n.targets) == 1 and isinstance(n.targets[0], ast.Subscript):
            t = n.targets[0]
            if ast.unparse(t.value) == "fo.attrs" and isinstance(n.value, ast.Subscript) and ast.unparse(n.value.value) == "md":
                copied.append((ast.literal_eval(t.slice), ast.literal_eval(n.value.slice)))
    ck.struct("recreate.copies", sorted(a for a, b in copied) == sorted(SHARED) and all(a == b for a, b in copied),
              "recreate_properties_file must copy exactly the 15 shared attributes name-for-name; copies %s" % copied, {})
    src = ast.unparse(fn[0])
    ck.struct("recreate.refuses_existing", "os.access(properties_file, os.R_OK)" in src and "raise IOError" in src and "fi['rf_data'].attrs" in src,
              "regeneration must refuse when drf_properties.h5 is readable and read the attributes of rf_data", {})
