"""Shared proof units of the C write path (index function, per-file step, public write API).
Each property check takes the obligations whose labels it owns (see OWNERS); the proof units are re-generated from
the current sources on every run."""
import os, re
import z3
from dvc.core import *
from dvc import cfront, cext, harness
from contracts import c_index, c_step, c_blocks

# label prefix -> properties that claim it
OWNERS = [
    ("digital_rf_write_rf_data_index.rebase_unbounded", ("C06", "C01", "C19", "C05")),
    ("bounds.digital_rf_write_rf_data_index.rebase_unbounded", ("C06", "C01")),
    ("nowrap.digital_rf_write_rf_data_index.rebase_unbounded", ("C06", "C01")),
    ("digital_rf_create_rf_data_index.T_unbounded", ("C04", "C06", "C19", "C01")),
    ("digital_rf_create_rf_data_index.rows_unbounded", ("C06", "C01", "C19")),
    ("L-cnt-mono", ("C06", "C01", "C19")),
    ("L-sel-equiv", ("C06", "C01", "C19")),
    ("L-wf-transitive", ("C04", "C06", "C19", "C01", "C05")),
    ("L-fstart-unique", ("C04", "C06", "C19", "C01", "C07")),
    ("digital_rf_create_rf_data_index.reject_unbounded", ("C05",)),
    ("digital_rf_create_rf_data_index.reject", ("C05",)),
    ("digital_rf_create_rf_data_index.accepts_wellformed", ("C05", "C01")),
    ("digital_rf_create_rf_data_index.within_window", ("C06",)),
    ("digital_rf_create_rf_data_index.samples_to_write", ("C01", "C06", "C19")),
    ("digital_rf_create_rf_data_index.row", ("C06", "C01", "C19")),
    ("digital_rf_create_rf_data_index.null_only_if_no_rows", ("C06",)),
    ("digital_rf_create_rf_data_index.frame_writer", ("C05", "C06")),
    ("assert.digital_rf_create_rf_data_index", ("C06",)),
    ("nowrap.digital_rf_create_rf_data_index", ("C06", "C01")),
    ("bounds.digital_rf_create_rf_data_index", ("C06", "C01")),
    ("digital_rf_create_rf_data_index.reject_unbounded", ("C05",)),
    # the block map lookup with which a multi-file call resumes: a wrong value makes a valid call fail half way (C05: atomic refusal)
    ("digital_rf_get_global_sample.unbounded", ("C01", "C06", "C19", "C05")),
    ("digital_rf_get_global_sample", ("C01", "C06", "C19", "C05")),
    ("nowrap.digital_rf_get_global_sample", ("C01",)),
    ("bounds.digital_rf_get_global_sample", ("C01",)),
    ("digital_rf_write_rf_data_index", ("C06", "C01", "C19", "C05")),     # the cursor after a step is computed from the rebased last row
    ("nowrap.digital_rf_write_rf_data_index", ("C06",)),
    ("bounds.digital_rf_write_rf_data_index", ("C06",)),
    ("L-index-post", ("C01", "C06", "C19")),
    ("step.reject", ("C05",)),
    ("step.newfile_iff_name_changes", ("C04",)),
    ("step.names_recorded", ("C04", "C19")),
    ("step.create_path", ("C04", "C02")),
    ("step.stays_in_window", ("C04", "C06")),
    ("step.hyperslab", ("C01",)),
    ("step.data_", ("C01",)),
    ("step.returns_samples_written", ("C01", "C19")),
    ("step.cursor", ("C19", "C05", "C01")),
    ("step.dataset_index_advanced", ("C06", "C01")),
    ("step.newfile.fill_value_is_written", ("C07",)),
    ("step.newfile.", ("C06", "C07")),
    ("step.extend", ("C06",)),
    ("step.existing", ("C06", "C07")),
    ("step.index.", ("C06", "C01")),
    ("step.recinv.", ("C06", "C01")),
    ("pre.", ("C01", "C04", "C06")),
    ("assert.digital_rf_write_samples_to_file", ("C06",)),
    ("bounds.digital_rf_write_samples_to_file", ("C06",)),
    ("blocks.reject", ("C05",)),
    ("blocks.success", ("C19", "C05", "C01")),
    ("blocks.return_codes", ("C05",)),
    ("blocks.step_args", ("C01",)),
    ("digital_rf_write_blocks_hdf5.loop", ("C05", "C19", "C01")),
]


C07_PLACEMENT = ("step.cursor", "step.recinv.", "step.hyperslab", "step.dataset_index_advanced")


def _continuous_unchunked_possible(o):
    import z3 as _z3
    from dvc import smt as _smt
    return _smt.quick_sat(list(o.hyps) + [_z3.Int("w.is_continuous") != 0, _z3.Int("w.needs_chunking") == 0], 1000, full=False)


def owned(label, pid):
    for pref, pids in OWNERS:
        if label.startswith(pref):
            return pid in pids
    return False


def lmax(tier):
    return 4 if tier == "thorough" else 3


def add_step_obligations(ck, tu, X, want, units=("index", "step", "blocks")):
    pid = want[0]
    tier = ck.tier
    LM = lmax(tier)
    sink = []

    def struct(label, ok, detail="", meta=None):
        if owned(label, pid):
            ck.struct(label, ok, detail, meta)

    def take(obls):
        for o in obls:
            if owned(o.label, pid):
                sink.append(o)
            elif pid == "C07" and o.label.startswith(C07_PLACEMENT) and _continuous_unchunked_possible(o):
                # continuous files expose slot k of the window for sample k: the placement clauses carry C07 on the paths of that mode
                sink.append(o)

    if "index" in units:
        for L in range(1, LM + 1):
            it = cfront.CInterp(tu, externals=X)
            c_index.verify_index_success(it, L)
            c_index.verify_index_reject(it, L)
            c_index.verify_global_sample(it, L)
            for o in it.obls:
                o.bounded = "index_len = %d of <= %d (all values symbolic)" % (L, LM)
            take(it.obls)
            hy, goals = c_step.lemma_index_post(L)
            for lab, g in goals:
                o = Obl("L-index-post.%s" % lab, "spec", 0, hy, g, kind="lemma", meta={"L": L})
                o.bounded = "index_len = %d of <= %d" % (L, LM)
                take([o])
            if pid in ("C06", "C01"):
                ck.cover("L-index-post.hyps_satisfiable.L%d" % L, hy)
        # unbounded (loop-invariant) parts: validation half of the index function, block map lookup
        it = cfront.CInterp(tu, externals=X, config={"prune_full": False})
        c_index.verify_index_reject_unbounded(it)
        c_index.verify_global_sample_unbounded(it)
        take(it.obls)
        it = cfront.CInterp(tu, externals=X, config={"prune_full": False})
        c_index.verify_index_T_unbounded(it)
        c_index.verify_write_index_rebase_unbounded(it)
        take(it.obls)
        # exact rows of the index function for every index_len (both passes by loop invariants over the ghost counter cnt)
        it = cfront.CInterp(tu, externals=X, config={"prune_full": False})
        c_index.verify_index_rows_unbounded(it)
        take(it.obls)
        take(c_index.lemmas_rows_unbounded())
        # the transitive form of WF used by the invariants follows from the adjacent form (C05's list) by induction on the
        # index distance: base and step are discharged here, the induction principle itself is the only meta-level step
        import z3 as _z3
        g_, b_ = _z3.Array("g", _z3.IntSort(), _z3.IntSort()), _z3.Array("b", _z3.IntSort(), _z3.IntSort())
        x_, y_, L_ = _z3.Ints("x y index_len")
        P = lambda a_, c_: _z3.And(_z3.Select(b_, a_) < _z3.Select(b_, c_), _z3.Select(g_, a_) < _z3.Select(g_, c_),
                                   _z3.Select(b_, c_) - _z3.Select(b_, a_) <= _z3.Select(g_, c_) - _z3.Select(g_, a_))
        take([Obl("L-wf-transitive.step", "spec", 0, [0 <= x_, x_ < y_, y_ + 1 < L_, P(x_, y_), P(y_, y_ + 1)], P(x_, y_ + 1), kind="lemma"),
              Obl("L-wf-transitive.base", "spec", 0, [0 <= x_, x_ + 1 < L_, P(x_, x_ + 1)], P(x_, x_ + 1), kind="lemma")])
        for R in range(1, (3 if tier == "thorough" else 2) + 1):
            for ex in (False, True):
                it = cfront.CInterp(tu, externals=X)
                c_index.verify_write_index(it, R, ex)
                for o in it.obls:
                    o.bounded = "block_index_len = %d" % R
                take(it.obls)
        for f in (c_index.INDEX_FN, "digital_rf_get_global_sample", "digital_rf_write_rf_data_index"):
            ck.add_function(tu.func_info(f))
        ck.extra.setdefault("bounded_functions", []).append(
            "digital_rf_create_rf_data_index / digital_rf_get_global_sample: loops unrolled for index_len <= %d with every value symbolic "
            "(bounded stand-in; callers are verified against the contract for all index_len). Proved for EVERY index_len by loop invariants: "
            "samples_to_write (T_unbounded), reject-iff-malformed (reject_unbounded), get_global_sample (unbounded); write_rf_data_index's offset rebasing (rebase_unbounded); exact rows / row_count (rows_unbounded, ghost counter cnt); still bounded: lemma L-index-post (exact rows => abstract index postcondition)" % LM)
    if "step" in units:
        import z3 as _z
        from spec.timespec import ceil_is as _ceil_is
        xa, xb, N_, D_ = _z.Ints("xa xb N D")
        take([Obl("L-fstart-unique", "spec", 0, [D_ > 0, _ceil_is(xa, N_, D_), _ceil_is(xb, N_, D_)], xa == xb, kind="lemma")])
        for sc in ("fresh", "open"):
            it = cfront.CInterp(tu, externals=X, config={"inline": c_step.INLINE, "specs": {}, "prune_full": False})
            ctx = c_step.run_step(it, sc)
            n0 = len(it.obls)
            c_step.analyse_step(it, ctx, struct)
            for o in it.obls:
                o.meta["scenario"] = sc
            take(it.obls)
        for f in (c_step.STEP_FN,) + c_step.INLINE:
            ck.add_function(tu.func_info(f))
    if "blocks" in units:
        it = cfront.CInterp(tu, externals=X, config={"prune_full": False})
        ctx = c_blocks.run_blocks(it)
        c_blocks.analyse_blocks(it, ctx, struct)
        take(it.obls)
        ck.add_function(tu.func_info(c_blocks.BLOCKS_FN))
    ck.add(sink)
    ck.trust({k: v for k, v in cext.TRUSTED.items()})
    ck.assumptions += [
        "ghost HDF5 model: H5Dcreate2/H5Dset_extent/H5Sselect_hyperslab/H5Dwrite behave as documented (dataset extent, hyperslab placement); HDF5 itself is trusted",
        "property domain: 1<=n<2^32, 1<=d<=1e9, n*d<2^64, cadences < 2^32 with the cadence rule, sample times before year 9999, fewer than 2^40 samples and 2^30 blocks per call, element size <= 16 bytes, < 2^16 subchannels",
        "calendar breakdown (gmtime) is injective on seconds; decimal file-name rendering is injective",
        "the writer record invariant RecInv (DESIGN §3 FileInv summary) holds when a write call starts: it is established by the first step of a fresh writer and re-established by every successful step (proved here); states after an I/O failure or a refused file are excluded (C10/C11)",
    ]
    return sink
