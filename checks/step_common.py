def add_step_obligations(ck, tu, X, want=()):
    pass
