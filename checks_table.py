"""Source of truth for MANIFEST.json (tools/gen_manifest.py)."""
ENGINES = [
    {"name": "dvc", "path": "/verif/dvc", "serves_properties": [],
     "kind_free_text": "own VC generator: clang JSON AST / python ast of the real sources -> path-wise symbolic execution with sidecar contracts -> one SMT query per obligation (z3 5.1, cvc5 on unknown); counterexamples replayed on code rebuilt from /repo"},
]
NOTES = "Contract-based deductive verification with a self-built VC generator (no C/Python deductive verifier is installed). See DESIGN.md."
CHECKS = {
 "C03": dict(category="proof", design_ref="DESIGN.md §4 C03",
   technique="contract-based deductive verification: pre/postconditions + stage lemmas on the real C functions (clang AST), VCs discharged by z3/cvc5; counterexamples replayed through ctypes",
   text="Unbounded proof, for the property's whole domain (idx<2^63, n<2^32, d<=1e9, n*d<2^64, before year 9999), that get_timestamp_floor and get_sample_ceil return exactly floor/ceil of the rational expressions, with a no-wrap obligation at every + - * (so machine and mathematical arithmetic agree); get_unix_time_rational verified modularly against those contracts; monotonicity and round-trip are lemmas over the contracts; the extension/Python wrappers are checked for argument plumbing and int(ps/1e6)==ps//10^6 under the correctly-rounded-division model.",
   note="trusted: gmtime (calendar breakdown, uninterpreted), PyArg_ParseTuple/Py_BuildValue, datetime constructor, IEEE correctly rounded division; our own VC generator (guarded by must-fail twins, covers, ledger, mutation self-tests)"),
 "C04": dict(category="proof", design_ref="DESIGN.md §4 C04",
   technique="contract-based deductive verification: contract of digital_rf_get_subdir_file proved modularly against the C03 contracts; layout lemmas (window, disjointness, subdirectory nesting) as lemma chains; new-file-iff-name-changes and stays-in-window as postconditions of the write step",
   text="Unbounded proof that the file/subdirectory names are the exact rational floors (file_ms, dir_sec clauses), that samples_left/max are fstart differences, that every index lies in exactly one file window and every file in exactly one subdirectory (lemmas), that the writer opens a new file exactly when the derived name changes, creates it under that name, and never writes past the window (T <= samples_left), and that the C constructor enforces the cadence rule.",
   note="trusted: snprintf decimal rendering, gmtime, strcmp; callee contracts of C03; the bound on index_len (<=3 quick, <=4 thorough) applies only to the body of create_rf_data_index (within_window clause), callers are unbounded; Python constructor's cadence check not yet under contract"),
 "C05": dict(category="other", design_ref="DESIGN.md §4 C05",
   technique="contract-based deductive verification of the public C write API: reject-iff-malformed and reject-before-effects as postconditions/frame conditions on every path (symbolic execution of the clang AST, z3)",
   text="For the C API: digital_rf_write_blocks_hdf5 / write_samples_to_file / create_rf_data_index reject exactly the malformed calls of the property (proved: rejected <=> not WF0, for index_len <= bound), every rejecting path precedes every file-system/HDF5 effect and leaves the writer record unchanged (structural, all paths), rejection is atomic (only the first step of a call can reject; loop invariant), and an accepted call moves the cursor to one past its last sample. Python pre-validation not yet under contract.",
   note="bounded part: loops of create_rf_data_index unrolled for index_len <= 3 (quick) / 4 (thorough), all values symbolic; everything else unbounded. HDF5/libc trusted."),
 "C06": dict(category="other", design_ref="DESIGN.md §4 C06",
   technique="contract-based deductive verification: functional contract of create_rf_data_index (rows and samples_to_write from the property), abstract index postcondition lemma, record/file invariant preserved by the write step over a ghost HDF5 file",
   text="The per-file index invariant (>=1 row, offset 0 first, strictly increasing samples/offsets, no overlap, offsets inside the stored data, data inside the file window, dataset extent) is proved to be established by the first step and preserved by every later step of digital_rf_write_samples_to_file for all inputs (unbounded in index_len at this level); the exact rows computed by create_rf_data_index are proved against the property's specification with its loops unrolled (bounded). Attribute duplication / regeneration not yet under contract.",
   note="bounded: body of create_rf_data_index / get_global_sample (index_len <= 3/4) and write_rf_data_index (<= 2/3 rows). Ghost HDF5 model trusted. One genuine defect (F1) found by this check was repaired (fix: commit in /repo)."),
 "C19": dict(category="other", design_ref="DESIGN.md §4 C19",
   technique="contract-based deductive verification: cursor postcondition of the write step and loop invariant of digital_rf_write_blocks_hdf5",
   text="C side: after every successful step global_index = G(w+T-1)+1 (including the intended int64 wrap-around path), the step returns the number of samples written, and after a successful call the cursor is one past the highest index of the call; the recorded file names are those of the step's first sample. Python counters / getters not yet under contract.",
   note="C part only so far; the extension's return-value plumbing and the Python counters are assumed. bounded part as in C06."),
 "C01": dict(category="other", design_ref="DESIGN.md §4 C01",
   technique="contract-based deductive verification (writer half): hyperslab placement, source pointer offset, index rows = block map of the data, composed over the ghost HDF5 file",
   text="Writer half of the round trip: each step writes T rows x all subchannels at the dataset cursor from vector + w*elemsize*(2 if complex)*nsub with the element type of the channel, the index rows describe exactly the block map of the data written (row sample = G(data position), contiguous between rows), so the abstract channel gains exactly {G(p)+start -> v[p]}. Reader half (C08) and candidate file list not yet under contract.",
   note="reader side assumed until C08 is built; HDF5 hyperslab I/O, filters and type conversion trusted; bounded part as in C06"),
}
_pending = "check not built yet in this round (work in progress, see DESIGN.md §8); not claimed until its obligations are generated and discharged"
NOT_APPLICABLE = {f"C{i:02d}": _pending for i in range(1, 21) if f"C{i:02d}" not in CHECKS}
