"""Source of truth for MANIFEST.json (tools/gen_manifest.py)."""
ENGINES = [
    {"name": "dvc", "path": "/verif/dvc", "serves_properties": [],
     "kind_free_text": "own VC generator: clang JSON AST / python ast of the real sources -> path-wise symbolic execution with sidecar contracts -> one SMT query per obligation (z3 5.1, cvc5 on unknown); counterexamples replayed on code rebuilt from /repo"},
]
NOTES = "Contract-based deductive verification with a self-built VC generator (no C/Python deductive verifier is installed). See DESIGN.md."
CHECKS = {
 "C03": dict(category="proof", design_ref="DESIGN.md §4 C03",
   technique="contract-based deductive verification: pre/postconditions + stage lemmas on the real C functions (clang AST), VCs discharged by z3/cvc5; counterexamples replayed through ctypes",
   text="Unbounded proof, for the property's whole domain (idx<2^63, n<2^32, d<=1e9, n*d<2^64, before year 9999), that get_timestamp_floor and get_sample_ceil return exactly floor/ceil of the rational expressions, with a no-wrap obligation at every + - * (so machine and mathematical arithmetic agree); get_unix_time_rational verified modularly against those contracts; monotonicity and round-trip are lemmas over the contracts; the extension/Python wrappers are checked for argument plumbing and int(ps/1e6)==ps//10^6 under the correctly-rounded-division model.",
   note="trusted: gmtime (calendar breakdown, uninterpreted), PyArg_ParseTuple/Py_BuildValue, datetime constructor, IEEE correctly rounded division; our own VC generator (guarded by must-fail twins, covers, ledger, mutation self-tests)"),
}
_pending = "check not built yet in this round (work in progress, see DESIGN.md §8); not claimed until its obligations are generated and discharged"
NOT_APPLICABLE = {f"C{i:02d}": _pending for i in range(1, 21) if f"C{i:02d}" not in CHECKS}
