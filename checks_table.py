"""Source of truth for MANIFEST.json (tools/gen_manifest.py)."""
ENGINES = [
    {"name": "dvc", "path": "/verif/dvc", "serves_properties": [],
     "kind_free_text": "own VC generator: clang JSON AST / python ast of the real sources -> path-wise symbolic execution with sidecar contracts -> one SMT query per obligation (z3 5.1, cvc5 on unknown); counterexamples replayed on code rebuilt from /repo"},
]
NOTES = "Contract-based deductive verification with a self-built VC generator (no C/Python deductive verifier is installed). See DESIGN.md."
CHECKS = {}
_pending = "check not built yet in this round (work in progress, see DESIGN.md §8); not claimed until its obligations are generated and discharged"
NOT_APPLICABLE = {f"C{i:02d}": _pending for i in range(1, 21)}
