"""Replay for fs.failed_create_never_published: a killed session left 'tmp.rf@T.h5' behind; a new session whose first sample falls into
that file period cannot create its file (exclusive creation), and closing it must not publish the stale file under the final name."""
import sys, os, json, tempfile, shutil, glob
import numpy as np
import h5py
import digital_rf


def main():
    spec = json.load(open(sys.argv[1]))
    fails, cases = [], 0
    for junk in (b"", b"\x89HDF\r\n\x1a\n" + b"\0" * 100, os.urandom(4096)):
        root = tempfile.mkdtemp(prefix="drfstale_")
        try:
            ch = os.path.join(root, "ch")
            os.mkdir(ch)
            t0 = 1500000000
            w = digital_rf.DigitalRFWriter(ch, np.int16, 3600, 1000, t0 * 100, 100, 1, uuid_str="a", is_complex=False, is_continuous=False)
            w.rf_write(np.arange(100, dtype=np.int16))
            w.close()
            first = glob.glob(os.path.join(ch, "*", "rf@%d.000.h5" % t0))
            if not first:
                fails.append({"what": "session 1 did not produce its file", "case": {}})
                break
            sub = os.path.dirname(first[0])
            stale = os.path.join(sub, "tmp.rf@%d.000.h5" % (t0 + 1))
            open(stale, "wb").write(junk)
            final = os.path.join(sub, "rf@%d.000.h5" % (t0 + 1))
            cases += 1
            w2 = digital_rf.DigitalRFWriter(ch, np.int16, 3600, 1000, (t0 + 1) * 100, 100, 1, uuid_str="a", is_complex=False, is_continuous=False)
            try:
                w2.rf_write(np.arange(50, dtype=np.int16))
                accepted = True
            except Exception:
                accepted = False
            w2.close()
            if os.path.exists(final):
                try:
                    with h5py.File(final, "r") as f:
                        ok = accepted and f["rf_data"].shape[0] == 50
                except Exception as e:
                    ok = False
                if not ok:
                    fails.append({"what": "a stale tmp file of a killed session was published as %s (not a complete file of written samples)" % os.path.basename(final),
                                  "case": {"stale_bytes": len(junk), "write_accepted": accepted}})
        finally:
            shutil.rmtree(root, ignore_errors=True)
        if len(fails) >= spec.get("max_failures", 1):
            break
    print(json.dumps({"failures": fails, "cases": cases}))


main()
