"""Bounded replay for C12/C13/C20: metadata written by the real DigitalMetadataWriter, read by the real reader(s), against
an exact model; placement compared with exact integer arithmetic; the tree is hashed before/after every read."""
import sys, os, json, random, shutil, tempfile, hashlib, datetime
import numpy as np
import digital_rf
from digital_rf import digital_metadata as dm


def tree_hash(root):
    out = {}
    for dp, dn, fn in os.walk(root):
        for f in fn:
            p = os.path.join(dp, f)
            out[os.path.relpath(p, root)] = hashlib.md5(open(p, "rb").read()).hexdigest()
        for x in dn:
            out[os.path.relpath(os.path.join(dp, x), root) + "/"] = "d"
    return out


def expected_path(k, n, d, C, S, name):
    T = ((k * d) // n) // C * C
    sub = (T // S) * S
    sd = (datetime.datetime(1970, 1, 1) + datetime.timedelta(seconds=sub)).strftime("%Y-%m-%dT%H-%M-%S")
    return os.path.join(sd, "%s@%d.h5" % (name, T))


def val_for(k, rnd):
    return {"scalar": int(k % 1000), "text": "s%d" % k, "arr": np.arange(3, dtype=np.int64) + int(k % 7), "nest": {"a": float(k % 5), "b": {"c": int(k % 3)}}}


def same(a, b):
    if isinstance(a, dict):
        return isinstance(b, dict) and set(a) == set(b) and all(same(a[x], b[x]) for x in a)
    if isinstance(a, np.ndarray) or isinstance(b, np.ndarray):
        return np.array_equal(np.asarray(a), np.asarray(b))
    if isinstance(b, bytes):
        b = b.decode()
    return a == b


def main():
    spec = json.load(open(sys.argv[1]))
    rnd = random.Random(spec.get("seed", 0))
    fails = []
    cases = 0
    for _ in range(spec.get("channels", 20)):
        n, d = rnd.choice([(1, 1), (10, 1), (100, 1), (200, 3), (1000000, 3), (10000000, 1), (25000000, 1), (12500001, 2), (1000, 7)])
        C = rnd.choice([1, 10, 60])
        S = C * rnd.choice([1, 6, 360])
        root = tempfile.mkdtemp(prefix="drfmd_")
        mdir = os.path.join(root, "md")
        os.makedirs(mdir)
        tag = {"n": n, "d": d, "file_cadence_secs": C, "subdir_cadence_secs": S}
        model = {}
        try:
            w = dm.DigitalMetadataWriter(mdir, S, C, n, d, "md")
            early = dm.DigitalMetadataReader(mdir, accept_empty=True) if rnd.random() < 0.5 else None
            j0 = rnd.randrange(1, 3) * 10 ** rnd.choice([0, 3, 6, 8]) + rnd.randrange(0, 50)
            kb = -((-j0 * C * n) // d)          # first sample of file j0
            cur = max(0, kb - rnd.choice([0, 1, 2, 5, 30]))
            writes = []
            for _w in range(rnd.randrange(1, 6)):
                m = rnd.choice([1, 1, 2, 3])
                ks = []
                for _k in range(m):
                    jn = ((cur * d) // n) // C + 1
                    nb = -((-jn * C * n) // d)
                    step = rnd.choice([1, 2, 7, nb - cur, max(1, nb - cur - 1), nb - cur + 1, rnd.randrange(1, 50), 95, 996])
                    cur = cur + max(1, step)
                    ks.append(cur)
                form = rnd.choice(["single", "dictarr", "listdict"]) if m > 1 else "single"
                if m == 1 or form == "single":
                    for k in ks:
                        w.write(k, val_for(k, rnd))
                        model[k] = val_for(k, rnd)
                elif form == "listdict":
                    w.write(ks, [val_for(k, rnd) for k in ks])
                    for k in ks:
                        model[k] = val_for(k, rnd)
                else:
                    # dict form: a value whose length equals the number of samples is distributed one element per sample
                    w.write(ks, {"scalar": [int(k % 1000) for k in ks], "text": "same", "nest": {"a": [float(k % 5) for k in ks]}})
                    for k in ks:
                        model[k] = {"scalar": int(k % 1000), "text": "same", "nest": {"a": float(k % 5)}}
                writes.append(ks)
                # ---- placement (C13)
                for k in ks:
                    cases += 1
                    p = os.path.join(mdir, expected_path(k, n, d, C, S, "md"))
                    ok = False
                    if os.path.exists(p):
                        import h5py
                        with h5py.File(p, "r") as f:
                            ok = str(k) in f
                    if not ok:
                        fails.append({"what": "sample %d is not stored in %s (exact placement)" % (k, expected_path(k, n, d, C, S, "md")), "case": dict(tag, writes=writes)}); break
                if fails:
                    break
                # duplicate refused
                if rnd.random() < 0.3:
                    k = rnd.choice(ks)
                    h0 = tree_hash(root)
                    try:
                        w.write(k, {"scalar": 1})
                        fails.append({"what": "rewriting sample %d was accepted" % k, "case": dict(tag, writes=writes)}); break
                    except IOError:
                        pass
                # ---- visibility right after the write returns (C20), old and new reader
                readers = [("new", dm.DigitalMetadataReader(mdir))] + ([("early", early)] if early is not None else [])
                lo, hi = min(model), max(model)
                for rname, r in readers:
                    cases += 1
                    h0 = tree_hash(root)
                    b = r.get_bounds()
                    if tuple(int(x) for x in b) != (lo, hi):
                        fails.append({"what": "%s reader: get_bounds %s, written (%d, %d)" % (rname, b, lo, hi), "case": dict(tag, writes=writes)}); break
                    got = r.read(ks[-1], ks[-1])
                    if [int(x) for x in got] != [ks[-1]]:
                        fails.append({"what": "%s reader: read(k,k) of the sample just written (%d) returned %s" % (rname, ks[-1], list(got)), "case": dict(tag, writes=writes)}); break
                    lat = r.read_latest()
                    if [int(x) for x in lat] != [hi]:
                        fails.append({"what": "%s reader: read_latest returned %s, highest index %d" % (rname, list(lat), hi), "case": dict(tag, writes=writes)}); break
                    if tree_hash(root) != h0:
                        fails.append({"what": "%s reader: reading modified the tree" % rname, "case": dict(tag, writes=writes)}); break
                if fails:
                    break
            if fails:
                break
            # ---- back-fill: a later call writes an index below everything written so far; readers that already answered queries
            #      must report it at once (C20: nothing about the channel is remembered between queries)
            if model and min(model) > 1 and rnd.random() < 0.5:
                kb_ = min(model) - rnd.choice([1, 1, 2, 7])
                if kb_ > 0 and kb_ not in model:
                    w.write(kb_, val_for(kb_, rnd))
                    model[kb_] = val_for(kb_, rnd)
                    lo, hi = min(model), max(model)
                    for rname, r in [("new", dm.DigitalMetadataReader(mdir))] + ([("early", early)] if early is not None else []):
                        cases += 1
                        b = r.get_bounds()
                        if tuple(int(x) for x in b) != (lo, hi):
                            fails.append({"what": "%s reader after a back-fill write: get_bounds %s, written (%d, %d)" % (rname, b, lo, hi), "case": dict(tag, writes=writes, backfill=kb_)}); break
                        got = r.read(kb_, kb_)
                        if [int(x) for x in got] != [kb_]:
                            fails.append({"what": "%s reader: read(k,k) of the back-filled sample %d returned %s" % (rname, kb_, list(got)), "case": dict(tag, writes=writes, backfill=kb_)}); break
                        got = r.read(kb_ + 0, method="ffill")
                        if [int(x) for x in got] != [kb_]:
                            fails.append({"what": "%s reader: ffill read at the back-filled sample %d returned %s" % (rname, kb_, list(got)), "case": dict(tag, writes=writes, backfill=kb_)}); break
                    if fails:
                        break
            # ---- a read that names a missing column on files older than one cadence must not modify the tree (C20)
            r = dm.DigitalMetadataReader(mdir)
            if rnd.random() < 0.5:
                for dp, dn, fn in os.walk(mdir):
                    for f in fn:
                        os.utime(os.path.join(dp, f), (1.0e9, 1.0e9))
                h0 = tree_hash(root)
                cases += 1
                try:
                    r.read(min(model), max(model), columns="no_such_column")
                except Exception:
                    pass
                if tree_hash(root) != h0:
                    fails.append({"what": "a read naming a missing column deleted/changed files of a valid tree", "case": dict(tag, writes=writes)}); break
            # ---- range reads (C12)
            keys = sorted(model)
            pts = sorted(set(keys + [k - 1 for k in keys] + [k + 1 for k in keys]))
            for _q in range(spec.get("queries", 20)):
                s = rnd.choice(pts)
                e = rnd.choice(pts)
                if e < s:
                    s, e = e, s
                for method in (None, "ffill"):
                    cases += 1
                    h0 = tree_hash(root)
                    got = r.read(s, e, method=method)
                    gk = [int(x) for x in got]
                    want = [k for k in keys if s <= k <= e]
                    if method:
                        before = [k for k in keys if k <= s]
                        if before and before[-1] not in want:
                            want = [before[-1]] + want
                    if gk != want:
                        fails.append({"what": "read(%d,%d,method=%s) returned %s, expected %s" % (s, e, method, gk[:8], want[:8]), "case": dict(tag, writes=writes)}); break
                    for k in gk[:3]:
                        if not same(model[k], got[k] if k in got else got[np.int64(k)]):
                            fails.append({"what": "read(%d,%d): fields of sample %d differ from what was written: %r" % (s, e, k, got.get(k)), "case": dict(tag, writes=writes)}); break
                    if tree_hash(root) != h0:
                        fails.append({"what": "reading modified the tree", "case": dict(tag, writes=writes)}); break
                if fails:
                    break
                cases += 1
                gc = r.read(s, e, columns="scalar")
                if [int(x) for x in gc] != [k for k in keys if s <= k <= e] or any(int(gc[k]) != model[int(k)]["scalar"] for k in gc):
                    fails.append({"what": "read(%d,%d,columns='scalar') wrong" % (s, e), "case": dict(tag, writes=writes)}); break
        except Exception as ex:
            import traceback
            fails.append({"what": "exception %r %s" % (ex, traceback.format_exc()[-400:]), "case": tag})
        finally:
            shutil.rmtree(root, ignore_errors=True)
        if len(fails) >= spec.get("max_failures", 1):
            break
    print(json.dumps({"failures": fails, "cases": cases}, default=str))


if __name__ == "__main__":
    main()
