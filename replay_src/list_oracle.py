"""Bounded differential for the listing (C14) and the transfer commands (C18): real lsdrf / drf cp|mv|ln on generated
trees against a set-theoretic oracle written from the property (not from the code).
usage: list_oracle.py <spec.json> -> JSON {"failures": [...], "cases": n}"""
import sys, os, json, random, shutil, tempfile, datetime, re
import digital_rf
from digital_rf import list_drf

EPOCH = datetime.datetime(1970, 1, 1, tzinfo=datetime.timezone.utc)
T0 = 1483228800  # 2017-01-01T00:00:00Z


def subdir_name(sec):
    return (EPOCH + datetime.timedelta(seconds=sec)).strftime("%Y-%m-%dT%H-%M-%S")


def parse_subdir(name):
    m = re.fullmatch(r"(\d{4})-(\d{2})-(\d{2})T(\d{2})-(\d{2})-(\d{2})", name)
    if not m:
        return None
    try:
        dt = datetime.datetime(*[int(x) for x in m.groups()], tzinfo=datetime.timezone.utc)
    except ValueError:
        return None
    return int((dt - EPOCH).total_seconds()) * 1000


def parse_file(name):
    """-> (kind, time_ms) ; kind in 'drf','dmd' or None.  name@secs.frac.h5 / name@secs.h5, name non-empty, not tmp."""
    if name.startswith("tmp.") or "@" not in name or not name.endswith(".h5"):
        return None
    # the name part is matched non-greedily up to the first '@' that makes the rest match
    for i, ch in enumerate(name):
        if ch == "@" and i >= 1:
            rest = name[i + 1:-3]
            m = re.fullmatch(r"(\d+)\.(\d{3})", rest)
            if m:
                return ("drf", int(m.group(1)) * 1000 + int(m.group(2)))
            m = re.fullmatch(r"(\d+)", rest)
            if m:
                return ("dmd", int(m.group(1)) * 1000)
    return None


DRFPROPS = {"drf_properties.h5", "metadata.h5"}
DMDPROPS = {"dmd_properties.h5", "metadata.h5"}


def oracle(path, recursive, reverse, start, end, inc_drf, inc_dmd, inc_drfp, inc_dmdp):
    """-> list of channel records in walk order: dict(dir, props(list), base(sorted list of (t, path)), lookback (t,path)|None, lookback_required)"""
    if inc_drfp is None:
        inc_drfp = inc_drf
    if inc_dmdp is None:
        inc_dmdp = inc_dmd
    chans = []

    def visit(d):
        try:
            ents = sorted(os.listdir(d))
        except OSError:
            return
        files = [e for e in ents if os.path.isfile(os.path.join(d, e))]
        dirs = [e for e in ents if os.path.isdir(os.path.join(d, e))]
        props = [f for f in files if f in DRFPROPS | DMDPROPS]
        descend = dirs
        if props:
            is_drf = any(f in DRFPROPS for f in props) and inc_drf
            is_dmd = any(f in DMDPROPS for f in props) and inc_dmd
            plist = sorted(os.path.join(d, f) for f in props if (f in DRFPROPS and inc_drfp) or (f in DMDPROPS and inc_dmdp))
            rec = {"dir": d, "props": plist, "base": [], "lookback": None, "lookback_required": False}
            tsdirs = [x for x in dirs if parse_subdir(x) is not None]
            if is_drf or is_dmd:
                allf = []
                for sd in tsdirs:
                    for f in sorted(os.listdir(os.path.join(d, sd))):
                        pf = parse_file(f)
                        if pf and ((pf[0] == "drf" and is_drf) or (pf[0] == "dmd" and is_dmd)):
                            allf.append((pf[1], os.path.join(d, sd, f)))
                allf.sort()
                rec["base"] = [x for x in allf if (start is None or x[0] >= start) and (end is None or x[0] <= end)]
                if is_dmd and start is not None:
                    before = [x for x in allf if x[0] < start and (end is None or x[0] <= end)]
                    if before:
                        rec["lookback"] = before[-1]
                        rec["lookback_candidates"] = [x for x in before if x[0] == before[-1][0]]
                        rec["lookback_required"] = not any(x[0] == start for x in allf)
            chans.append(rec)
            if inc_drf or inc_dmd:
                descend = [x for x in dirs if x not in tsdirs]
        if recursive:
            for x in (sorted(descend, reverse=reverse)):
                visit(os.path.join(d, x))
    visit(os.path.abspath(path))
    return chans


def compare(path, kw, out, fails, tag):
    start = kw.get("starttime")
    end = kw.get("endtime")
    # endpoints are instants: a naive datetime is documented as UTC, an aware one keeps its instant whatever its offset
    if start is not None and start.tzinfo is None:
        start = start.replace(tzinfo=datetime.timezone.utc)
    if end is not None and end.tzinfo is None:
        end = end.replace(tzinfo=datetime.timezone.utc)
    s_ms = None if start is None else int(round((start - EPOCH).total_seconds() * 1000))
    e_ms = None if end is None else int(round((end - EPOCH).total_seconds() * 1000))
    chans = oracle(path, kw.get("recursive", True), kw.get("reverse", False), s_ms, e_ms, kw.get("include_drf", True),
                   kw.get("include_dmd", True), kw.get("include_drf_properties"), kw.get("include_dmd_properties"))
    if len(set(out)) != len(out):
        fails.append({"what": "a file is listed twice", "case": tag, "listing": out[:10]}); return
    pos = 0
    rest = list(out)
    for rec in chans:
        mine = [p for p in rest if (os.path.dirname(p) == rec["dir"] and os.path.basename(p) in (DRFPROPS | DMDPROPS))
                or (os.path.dirname(os.path.dirname(p)) == rec["dir"] and parse_subdir(os.path.basename(os.path.dirname(p))) is not None
                    and os.path.basename(p) not in (DRFPROPS | DMDPROPS))]
        for p in mine:
            rest.remove(p)
        got_props = [p for p in mine if os.path.dirname(p) == rec["dir"]]
        got_data = [p for p in mine if os.path.dirname(p) != rec["dir"]]
        want_props = sorted(rec["props"], reverse=kw.get("reverse", False))
        if got_props != want_props:
            fails.append({"what": "property files of %s: listed %s, expected %s" % (rec["dir"], got_props, want_props), "case": tag}); return
        if mine[:len(got_props)] != got_props:
            fails.append({"what": "property files must precede the data files of their channel", "case": tag}); return
        base = [p for _, p in rec["base"]]
        extra = [p for p in got_data if p not in base]
        missing = [p for p in base if p not in got_data]
        lb_ok = [p for _, p in rec.get("lookback_candidates", [])]
        if missing:
            fails.append({"what": "files in the window are not listed: %s" % [os.path.relpath(m, path) for m in missing[:3]], "case": tag}); return
        if any(p not in lb_ok for p in extra) or len(extra) > 1:
            fails.append({"what": "files outside the window are listed: %s" % [os.path.relpath(m, path) for m in extra[:3]], "case": tag}); return
        if rec["lookback_required"] and not extra:
            fails.append({"what": "the latest metadata file before start (%s) is not listed" % os.path.relpath(rec["lookback"][1], path), "case": tag}); return
        # order: ascending (time, path), descending when reversed
        keyed = [(parse_file(os.path.basename(p))[1], p) for p in got_data]
        want_order = sorted(keyed, reverse=kw.get("reverse", False))
        if keyed != want_order:
            fails.append({"what": "files of %s are not in %s time order: %s" % (rec["dir"], "descending" if kw.get("reverse") else "ascending",
                                                                                  [os.path.basename(p) for _, p in keyed]), "case": tag}); return
    if rest:
        fails.append({"what": "listed paths outside any channel: %s" % rest[:3], "case": tag}); return
    # channel order = walk order
    order = []
    for p in out:
        d = os.path.dirname(p)
        if os.path.basename(p) not in (DRFPROPS | DMDPROPS):
            d = os.path.dirname(d)
        if not order or order[-1] != d:
            order.append(d)
    want = [c["dir"] for c in chans if c["dir"] in order]
    if order != want:
        fails.append({"what": "channels listed in order %s, expected %s" % (order, want), "case": tag}); return


def touch(p):
    os.makedirs(os.path.dirname(p), exist_ok=True)
    open(p, "w").close()


def gen_tree(rnd, root):
    """returns list of interesting times (ms)"""
    times = []
    def channel(d, kind):
        if kind == "rf":
            touch(os.path.join(d, "drf_properties.h5"))
        elif kind == "md":
            touch(os.path.join(d, "dmd_properties.h5"))
        elif kind == "legacy":
            touch(os.path.join(d, "metadata.h5"))
        else:
            touch(os.path.join(d, "drf_properties.h5")); touch(os.path.join(d, "dmd_properties.h5"))
        nsub = rnd.choice([0, 1, 2, 3, 4])
        h0 = rnd.randrange(0, 5)
        for k in range(nsub):
            ssec = T0 + 3600 * (h0 + k * rnd.choice([1, 1, 2]))
            sd = os.path.join(d, subdir_name(ssec))
            os.makedirs(sd, exist_ok=True)
            times.append(ssec * 1000)
            if rnd.random() < 0.2:
                continue     # empty subdirectory
            for _ in range(rnd.randrange(1, 4)):
                t = ssec + rnd.choice([0, 0, 1, 600, 1800, 3599])
                times.append(t * 1000)
                if kind in ("rf", "legacy", "both") and rnd.random() < 0.7:
                    fr = rnd.choice([0, 0, 250, 999])
                    touch(os.path.join(sd, "rf@%d.%03d.h5" % (t, fr)))
                    times.append(t * 1000 + fr)
                if kind in ("md", "legacy", "both") and rnd.random() < 0.7:
                    touch(os.path.join(sd, "%s@%d.h5" % (rnd.choice(["metadata", "md"]), t)))
            if rnd.random() < 0.3:
                touch(os.path.join(sd, "tmp.rf@%d.000.h5" % (ssec + 7)))
            if rnd.random() < 0.2:
                touch(os.path.join(sd, "notes.txt"))
            if rnd.random() < 0.1:
                touch(os.path.join(sd, "tmp.metadata@%d.h5" % (ssec + 9)))
        if rnd.random() < 0.2:
            touch(os.path.join(d, "rf@%d.000.h5" % (T0 + 5)))        # stray file directly in the channel directory
        if rnd.random() < 0.25:
            os.makedirs(os.path.join(d, "metadata"), exist_ok=True)   # nested metadata channel
            channel(os.path.join(d, "metadata"), "md")
    for name in rnd.sample(["ch0", "ch1", "aux", "zz"], rnd.randrange(1, 4)):
        r = rnd.random()
        if r < 0.15:
            os.makedirs(os.path.join(root, name), exist_ok=True)
            channel(os.path.join(root, name, "inner"), rnd.choice(["rf", "md"]))
        else:
            channel(os.path.join(root, name), rnd.choice(["rf", "rf", "md", "md", "legacy", "both"]))
    return sorted(set(times))


def rnd_kwargs(rnd, times):
    kw = {}
    def tm():
        if not times or rnd.random() < 0.1:
            return T0 * 1000 + rnd.randrange(0, 5 * 3600000)
        return rnd.choice(times) + rnd.choice([0, 0, 0, 1, -1, 1000, -1000, 1800000])
    if rnd.random() < 0.7:
        kw["starttime"] = EPOCH + datetime.timedelta(milliseconds=tm())
    if rnd.random() < 0.6:
        kw["endtime"] = EPOCH + datetime.timedelta(milliseconds=tm())
    if "starttime" in kw and "endtime" in kw and kw["endtime"] < kw["starttime"]:
        kw["starttime"], kw["endtime"] = kw["endtime"], kw["starttime"]
    # the same instants given in another time zone, or naive (= UTC)
    r = rnd.random()
    if r < 0.3:
        tz = datetime.timezone(datetime.timedelta(minutes=rnd.choice([120, -300, 330, -60, 540])))
        for k in ("starttime", "endtime"):
            if k in kw:
                kw[k] = kw[k].astimezone(tz)
    elif r < 0.4:
        for k in ("starttime", "endtime"):
            if k in kw:
                kw[k] = kw[k].replace(tzinfo=None)
    if rnd.random() < 0.35:
        kw["reverse"] = True
    if rnd.random() < 0.15:
        kw["recursive"] = False
    for k in ("include_drf", "include_dmd"):
        if rnd.random() < 0.25:
            kw[k] = False
    for k in ("include_drf_properties", "include_dmd_properties"):
        r = rnd.random()
        if r < 0.15:
            kw[k] = True
        elif r < 0.3:
            kw[k] = False
    return kw


def kw_json(kw):
    return {k: (v.isoformat() if hasattr(v, "isoformat") else v) for k, v in kw.items()}


def main():
    spec = json.load(open(sys.argv[1]))
    rnd = random.Random(spec.get("seed", 0))
    fails = []
    cases = 0
    mode = spec.get("mode", "list")
    for _ in range(spec.get("trees", 50)):
        root = tempfile.mkdtemp(prefix="drfls_")
        try:
            times = gen_tree(rnd, root)
            for _ in range(spec.get("queries", 6)):
                kw = rnd_kwargs(rnd, times)
                sub = rnd.choice([root, root, root] + [os.path.join(root, x) for x in os.listdir(root)])
                tag = {"tree": sorted(os.path.relpath(os.path.join(dp, f), root) for dp, dn, fn in os.walk(root) for f in fn)[:60],
                       "empty_dirs": sorted(os.path.relpath(os.path.join(dp, x), root) for dp, dn, fn in os.walk(root) for x in dn if not os.listdir(os.path.join(dp, x)))[:10],
                       "path": os.path.relpath(sub, root), "kwargs": kw_json(kw)}
                cases += 1
                try:
                    out = digital_rf.lsdrf(sub, **kw)
                except Exception as e:
                    fails.append({"what": "lsdrf raised %r" % (e,), "case": tag})
                    break
                compare(sub, kw, out, fails, tag)
                if fails:
                    break
        finally:
            shutil.rmtree(root, ignore_errors=True)
        if len(fails) >= spec.get("max_failures", 1):
            break
    print(json.dumps({"failures": fails, "cases": cases}, default=str))


if __name__ == "__main__":
    main()
