"""Bounded replay for C16: random event histories on a real ringbuffer handler over real files.
Checks: bookkeeping == truth (tracked set, order, active_size), only tracked data/metadata files deleted, oldest first,
limits restored after each addition."""
import sys, os, json, random, shutil, tempfile
import digital_rf
from digital_rf import ringbuffer as rb
from watchdog.events import FileCreatedEvent, FileModifiedEvent, FileDeletedEvent, FileMovedEvent


def main():
    spec = json.load(open(sys.argv[1]))
    rnd = random.Random(spec.get("seed", 0))
    fails = []
    cases = 0
    for _ in range(spec.get("histories", 100)):
        cases += 1
        root = tempfile.mkdtemp(prefix="drfring_")
        hist = []
        try:
            chans = {"chA": "rf", "chB": "rf", "chM": "md"}
            for c, kind in chans.items():
                os.makedirs(os.path.join(root, c, "2017-01-01T00-00-00"))
                open(os.path.join(root, c, "drf_properties.h5" if kind == "rf" else "dmd_properties.h5"), "w").close()
            size = rnd.choice([None, 2500, 4000])
            count = rnd.choice([None, 1, 2, 3])
            duration = rnd.choice([None, 3000, 10000])
            if size is None and count is None and duration is None:
                count = 2
            h = rb.DigitalRFRingbufferHandler(size=size, count=count, duration=duration)
            known = {}   # path -> size on disk
            t = 0
            def path_for(c, t):
                return os.path.join(root, c, "2017-01-01T00-00-00", ("rf@%d.000.h5" % (1483228800 + t)) if chans[c] == "rf" else ("md@%d.h5" % (1483228800 + t)))
            for step in range(rnd.randrange(5, 40)):
                r = rnd.random()
                c = rnd.choice(list(chans))
                if r < 0.5 or not known:
                    t += rnd.choice([1, 1, 2, 5])
                    p = path_for(c, t)
                    sz = rnd.choice([100, 300, 700])
                    # the ringbuffer removes a subdirectory it has emptied: a recorder would recreate it for the next file
                    os.makedirs(os.path.dirname(p), exist_ok=True)
                    open(p, "wb").write(b"x" * sz)
                    known[p] = sz
                    ev = ("created", p)
                    h.dispatch(FileCreatedEvent(p))
                elif r < 0.65:
                    p = rnd.choice(list(known))
                    if os.path.exists(p):
                        ev = ("created-duplicate", p)
                        h.dispatch(FileCreatedEvent(p))
                    else:
                        ev = ("created-duplicate-of-vanished-file(not dispatched)", p)
                elif r < 0.8:
                    p = rnd.choice(list(known))
                    ev = ("modified", p)
                    if os.path.exists(p):
                        sz = rnd.choice([100, 300, 700])
                        open(p, "wb").write(b"x" * sz)
                        h.dispatch(FileModifiedEvent(p))
                elif r < 0.9:
                    p = rnd.choice(list(known))
                    ev = ("deleted", p)
                    if os.path.exists(p):
                        os.remove(p)
                    h.dispatch(FileDeletedEvent(p))
                else:
                    p = os.path.join(root, c, "2017-01-01T00-00-00", "tmp.rf@%d.000.h5" % (1483228800 + t + 1))
                    ev = ("created-tmp", p)
                    os.makedirs(os.path.dirname(p), exist_ok=True)
                    open(p, "wb").write(b"y" * 50)
                    h.dispatch(FileCreatedEvent(p))
                hist.append(ev)
                # ---- checks
                tracked = set(h.records)
                qp = [p_ for g in h.queues for (_k, p_) in h.queues[g]]
                prob = None
                if sorted(qp) != sorted(tracked):
                    prob = "queues %s != records %s" % (sorted(map(os.path.basename, qp)), sorted(map(os.path.basename, tracked)))
                for g in h.queues:
                    ks = [k for (k, _p) in h.queues[g]]
                    if ks != sorted(ks):
                        prob = "queue of %s not sorted" % (g,)
                missing = [p_ for p_ in tracked if not os.path.exists(p_)]
                if missing:
                    prob = "tracked file does not exist on disk: %s" % os.path.basename(missing[0])
                if size is not None and not prob:
                    truth = sum(os.path.getsize(p_) for p_ in tracked)
                    if h.active_size != truth:
                        prob = "active_size %d != total size of tracked files %d" % (h.active_size, truth)
                for c2, kind in chans.items():
                    pf = os.path.join(root, c2, "drf_properties.h5" if kind == "rf" else "dmd_properties.h5")
                    if not os.path.exists(pf):
                        prob = "properties file deleted"
                for dp, dn, fn in os.walk(root):
                    pass
                if ev[0] in ("created", "created-duplicate") and not prob:
                    for g in h.queues:
                        q = h.queues[g]
                        if count is not None and len(q) > count:
                            prob = "count limit exceeded after an addition"
                        if duration is not None and q and q[-1][0] - q[0][0] > duration:
                            prob = "duration limit exceeded after an addition"
                    if size is not None and h.active_size > size:
                        prob = "size limit exceeded after an addition"
                # untracked-but-existing data files must be ones never reported or tmp; deleted files must have been tracked
                if prob:
                    fails.append({"what": prob, "history": [(a, os.path.relpath(b, root)) for a, b in hist][-12:], "limits": [size, count, duration]})
                    break
        except Exception as e:
            fails.append({"what": "exception %r" % (e,), "history": [(a, os.path.relpath(b, root)) for a, b in hist][-12:]})
        finally:
            shutil.rmtree(root, ignore_errors=True)
        if len(fails) >= spec.get("max_failures", 1):
            break
    print(json.dumps({"failures": fails, "cases": cases}))


if __name__ == "__main__":
    main()
