"""Bounded replay for C08/C01 (reader half): channels written by the real writer, queried through the real reader, against an
exact model (dict index -> value)."""
import sys, os, json, random, shutil, tempfile
import numpy as np
import digital_rf


def fstart(t_ms, n, d):
    return -((-t_ms * n) // (1000 * d))


def runs(model, s, e):
    ks = sorted(k for k in model if s <= k <= e)
    out = []
    for k in ks:
        if out and out[-1][0] + out[-1][1] == k:
            out[-1][1] += 1
        else:
            out.append([k, 1])
    return [(a, b) for a, b in out]


def main():
    spec = json.load(open(sys.argv[1]))
    rnd = random.Random(spec.get("seed", 0))
    fails = []
    cases = 0
    for _ in range(spec.get("channels", 20)):
        n, d, F, S = rnd.choice([(100, 1, 1000, 3600), (200, 3, 400, 2), (10000, 1, 1000, 3600), (1000000, 3, 400, 3600), (1000, 7, 2000, 10),
                                 (25000000, 3, 1000, 3600), (100000000, 7, 1000, 3600)])
        cont = rnd.random() < 0.3 and (F * n) // (1000 * d) <= 20000
        nsub = rnd.choice([1, 1, 2, 3])
        tfile = (1500000000000 // F) * F + F * rnd.randrange(0, 5)
        b0 = fstart(tfile, n, d)
        start = b0 - rnd.choice([0, 0, 3, 10])
        root = tempfile.mkdtemp(prefix="drfrd_")
        chdir = os.path.join(root, "ch")
        os.makedirs(chdir)
        model = {}
        tag = {"n": n, "d": d, "F": F, "S": S, "continuous": cont, "nsub": nsub, "start": start}
        try:
            w = digital_rf.DigitalRFWriter(chdir, np.int32, S, F, start, n, d, uuid_str="u", is_complex=False, num_subchannels=nsub, is_continuous=cont, marching_periods=False)
            cur = 0
            val = 1
            writes = []
            for _ in range(rnd.randrange(1, 6)):
                # next file boundary relative to cursor
                k = start + cur
                tms = (k * d * 1000) // n // F * F
                nb = fstart(tms + F, n, d) - k
                gap = rnd.choice([0, 0, 1, 2, nb, max(0, nb - 1), nb + 1, rnd.randrange(0, 30)])
                ln = rnd.choice([1, 2, 5, max(1, nb - gap), max(1, nb - gap + 1), max(1, nb - gap - 1) if nb - gap > 1 else 1, rnd.randrange(1, 40)])
                ln = min(ln, 5000)
                if gap > 200000:
                    gap = rnd.randrange(0, 30)
                data = np.arange(val, val + ln, dtype=np.int32)
                arr = np.stack([data + 100000 * c for c in range(nsub)], axis=1) if nsub > 1 else data
                w.rf_write(arr, cur + gap)
                for j in range(ln):
                    model[start + cur + gap + j] = val + j
                writes.append((cur + gap, ln))
                cur += gap + ln
                val += ln
            w.close()
            tag["writes"] = writes
            r = digital_rf.DigitalRFReader(root)
            lo, hi = min(model), max(model)
            fill = np.iinfo(np.int32).min
            def is_written(k):
                return k in model
            # expected visible map: continuous unchunked files expose fill values for unwritten slots of existing files
            vis = dict(model)
            if cont:
                # every slot of every existing file window
                for k in list(model):
                    tms = (k * d * 1000) // n // F * F
                    a, b = fstart(tms, n, d), fstart(tms + F, n, d)
                    if b - a <= 20000:
                        for x in range(a, b):
                            vis.setdefault(x, fill)
            vlo, vhi = min(vis), max(vis)
            bnds = r.get_bounds("ch")
            cases += 1
            if tuple(int(x) for x in bnds) != (vlo, vhi):
                fails.append({"what": "get_bounds %s, first/last readable index %s" % (tuple(int(x) for x in bnds), (vlo, vhi)), "case": tag}); break
            edges = sorted(set([vlo, vhi] + [k for k in vis if k - 1 not in vis or k + 1 not in vis]))
            files = sorted(set(fstart(((k * d * 1000) // n // F) * F, n, d) for k in vis))
            pts = sorted(set(edges + files + [f - 1 for f in files] + [f + 1 for f in files]))
            for _q in range(spec.get("queries", 25)):
                s = rnd.choice(pts) + rnd.choice([0, 0, 0, -1, 1, -3])
                e = rnd.choice(pts) + rnd.choice([0, 0, 0, -1, 1, 5])
                if e < s:
                    s, e = e, s
                if e - s > 30000:
                    e = s + rnd.randrange(0, 3000)
                cases += 1
                want = runs(vis, s, e)
                got = r.read(s, e, "ch")
                gl = [(int(k), len(v)) for k, v in got.items()]
                if gl != want:
                    fails.append({"what": "read(%d,%d): blocks %s, expected %s" % (s, e, gl[:6], want[:6]), "case": tag}); break
                bad = None
                for k, v in got.items():
                    col = v[:, 0] if v.ndim > 1 else v
                    for j in (0, len(col) - 1, len(col) // 2):
                        if int(col[j]) != vis[int(k) + j]:
                            bad = "read(%d,%d): value %d at index %d, written %d" % (s, e, int(col[j]), int(k) + j, vis[int(k) + j])
                    if nsub > 1 and any(int(v[0, c]) != (vis[int(k)] + 100000 * c if vis[int(k)] != fill else fill) for c in range(nsub)):
                        bad = "read(%d,%d): wrong value in a subchannel at index %d" % (s, e, int(k))
                if bad:
                    fails.append({"what": bad, "case": tag}); break
                gb = r.get_continuous_blocks(s, e, "ch")
                if [(int(k), int(v)) for k, v in gb.items()] != want:
                    fails.append({"what": "get_continuous_blocks(%d,%d) %s differs from the blocks read %s" % (s, e, list(gb.items())[:6], want[:6]), "case": tag}); break
                if e > s:
                    m = rnd.randrange(s, e)
                    a1, a2 = r.read(s, m, "ch"), r.read(m + 1, e, "ch")
                    merged = dict((int(k), len(v)) for k, v in a1.items())
                    for k, v in a2.items():
                        k = int(k)
                        hit = [kk for kk in merged if kk + merged[kk] == k]
                        if hit:
                            merged[hit[0]] += len(v)
                        else:
                            merged[k] = len(v)
                    if sorted(merged.items()) != want:
                        fails.append({"what": "read(%d,%d) differs from the merge of read(%d,%d) and read(%d,%d)" % (s, e, s, m, m + 1, e), "case": tag}); break
                if nsub > 1:
                    c = rnd.randrange(nsub)
                    gs = r.read(s, e, "ch", sub_channel=c)
                    for k, v in gs.items():
                        if not np.array_equal(v, got[k][:, c]):
                            fails.append({"what": "read(%d,%d,sub_channel=%d) differs from column %d of the full read" % (s, e, c, c), "case": tag}); break
                    if fails:
                        break
                # vector reads
                L = rnd.choice([1, 1, 2, nsub, nsub, e - s + 1])
                L = max(1, min(L, 3000))
                covered = all((s + j) in vis for j in range(L))
                try:
                    z = r.read_vector_raw(s, L, "ch")
                    if not covered:
                        fails.append({"what": "read_vector_raw(%d,%d) returned data although an index is missing" % (s, L), "case": tag}); break
                    zz = np.asarray(z)
                    col = zz[:, 0] if zz.ndim > 1 else zz
                    if len(col) != L or any(int(col[j]) != vis[s + j] for j in (0, L - 1)):
                        fails.append({"what": "read_vector_raw(%d,%d) returned wrong/shifted data (shape %s)" % (s, L, zz.shape), "case": tag}); break
                except IOError:
                    if covered:
                        fails.append({"what": "read_vector_raw(%d,%d) raised IOError although every index is present" % (s, L), "case": tag}); break
                except Exception as ex:
                    fails.append({"what": "read_vector_raw(%d,%d) raised %r" % (s, L, ex), "case": tag}); break
            if fails:
                break
        except Exception as ex:
            import traceback
            fails.append({"what": "exception %r %s" % (ex, traceback.format_exc()[-300:]), "case": tag})
        finally:
            shutil.rmtree(root, ignore_errors=True)
        if len(fails) >= spec.get("max_failures", 1):
            break
    print(json.dumps({"failures": fails, "cases": cases}, default=str))


if __name__ == "__main__":
    main()
