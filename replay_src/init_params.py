"""Replay for py.init.parameters_reach_the_c_layer: per cell (component type, byte order, form) a channel is recorded with that sample
type, then (a) a session with the same parameters must be accepted and (b) a session whose sample type differs in the byte order only
must be refused with the channel directory unchanged."""
import sys, os, json, tempfile, shutil, hashlib
import numpy as np
import digital_rf


def mk(comp, order, form):
    base = np.dtype(order + comp)
    if form == "struct":
        return np.dtype([("r", base), ("i", base)]), False
    if form == "npcomplex":
        return np.dtype(order + "c%d" % (2 * base.itemsize)), False
    return base, form == "real_as_complex"


def tree_hash(d):
    h = hashlib.sha256()
    for dp, dn, fn in sorted(os.walk(d)):
        for f in sorted(fn):
            p = os.path.join(dp, f)
            h.update(os.path.relpath(p, d).encode())
            h.update(open(p, "rb").read())
    return h.hexdigest()


def opener(ch, dt, cplx, start):
    return digital_rf.DigitalRFWriter(ch, dt, 3600, 1000, start, 100, 1, uuid_str="u", is_complex=cplx, num_subchannels=1, is_continuous=False)


def main():
    spec = json.load(open(sys.argv[1]))
    fails, cases = [], 0
    for comp, order, form in spec["cells"]:
        if np.dtype(comp).itemsize == 1 or form == "npcomplex":
            continue        # no byte order / normalised to native order by design
        other = ">" if np.dtype(order + comp).byteorder in ("=", "<") else "<"
        root = tempfile.mkdtemp(prefix="drfinit_")
        try:
            ch = os.path.join(root, "ch")
            os.mkdir(ch)
            dt, cplx = mk(comp, order, form)
            w = opener(ch, dt, cplx, 100000)
            arr = np.zeros(10, dtype=dt) if not cplx else np.zeros((10, 2), dtype=dt)
            w.rf_write(arr)
            w.close()
            h0 = tree_hash(ch)
            cases += 1
            dt2, _ = mk(comp, other, form)
            try:
                w2 = opener(ch, dt2, cplx, 200000)
                w2.close()
                fails.append({"what": "a session differing only in byte order (%s vs %s) was accepted on an existing channel" % (dt2, dt), "case": [comp, order, form]})
            except Exception:
                if tree_hash(ch) != h0:
                    fails.append({"what": "refused session changed the channel directory", "case": [comp, order, form]})
            try:
                w3 = opener(ch, dt, cplx, 300000)
                w3.close()
            except Exception as e:
                fails.append({"what": "a session with identical parameters was refused: %r" % (e,), "case": [comp, order, form]})
        finally:
            shutil.rmtree(root, ignore_errors=True)
        if len(fails) >= spec.get("max_failures", 1):
            break
    print(json.dumps({"failures": fails, "cases": cases}))


main()
