"""Bounded replay for C18: drf cp / mv / ln on generated trees; the destination must hold exactly the files the
equivalent listing selects, at the same relative paths, with identical content; cp/ln leave the source unchanged,
mv removes exactly what it transferred."""
import sys, os, json, random, shutil, tempfile, datetime, hashlib
import digital_rf
from digital_rf import drf_command, list_drf
sys.path.insert(0, os.path.dirname(os.path.abspath(__file__)))
import list_oracle as LO


def snap(root):
    out = {}
    for dp, dn, fn in os.walk(root):
        for f in fn:
            p = os.path.join(dp, f)
            out[os.path.relpath(p, root)] = (hashlib.md5(open(p, "rb").read()).hexdigest() if not os.path.islink(p) else "->" + os.readlink(p), os.stat(p).st_ino)
    return out


def main():
    spec = json.load(open(sys.argv[1]))
    rnd = random.Random(spec.get("seed", 0))
    fails = []
    cases = 0
    for _ in range(spec.get("cases", 30)):
        base = tempfile.mkdtemp(prefix="drftr_")
        src, dst = os.path.join(base, "src"), os.path.join(base, "dst")
        os.makedirs(src)
        try:
            times = LO.gen_tree(rnd, src)
            k = 0
            for dp, dn, fn in os.walk(src):
                for f in fn:
                    k += 1
                    open(os.path.join(dp, f), "w").write("content %d %s" % (k, f))
            cmd = rnd.choice(["cp", "mv", "ln", "ln-sym"])
            kw = LO.rnd_kwargs(rnd, times)
            # the command line takes the window as UTC text: render the same instants in UTC (the listing oracle also draws other offsets)
            import datetime as _dt
            for k_ in ("starttime", "endtime"):
                if k_ in kw:
                    kw[k_] = kw[k_].replace(tzinfo=_dt.timezone.utc) if kw[k_].tzinfo is None else kw[k_].astimezone(_dt.timezone.utc)
            args = [cmd.split("-")[0]]
            if cmd == "ln-sym":
                args.append("--symbolic")
            chans = sorted(os.listdir(src))
            chs = None
            r = rnd.random()
            if r < 0.1:
                chs = [rnd.choice(["nosuch", "missing_channel"])]      # a channel that does not exist: nothing is listed, nothing may be transferred
                args += ["-c", chs[0]]
            elif r < 0.5 and chans:
                chs = rnd.sample(chans, rnd.randrange(1, len(chans) + 1))
                if rnd.random() < 0.15:
                    chs.append("nosuch")
                deco = rnd.choice(["plain", "plain", "slash", "dot"])
                for c in chs:
                    args += ["-c", {"plain": c, "slash": c + "/", "dot": "./" + c}[deco]]
                chs = list(chs)
            if "starttime" in kw:
                args += ["-s", kw["starttime"].strftime("%Y-%m-%dT%H:%M:%S.%f")]
            if "endtime" in kw:
                args += ["-e", kw["endtime"].strftime("%Y-%m-%dT%H:%M:%S.%f")]
            if kw.get("reverse"):
                args.append("-R")
            if kw.get("recursive") is False:
                args.append("--only")
            if kw.get("include_drf") is False:
                args.append("--nodrf")
            if kw.get("include_dmd") is False:
                args.append("--nodmd")
            for key, flag in (("include_drf_properties", "drfprops"), ("include_dmd_properties", "dmdprops")):
                if kw.get(key) is True:
                    args.append("--" + flag)
                elif kw.get(key) is False:
                    args.append("--no" + flag)
            args += [src, dst]
            # expected set from the equivalent listing(s)
            lkw = {k_: v for k_, v in kw.items()}
            want = {}
            roots = [(os.path.join(src, c), c) for c in chs] if chs else [(src, "")]
            for sroot, rel in roots:
                if not os.path.isdir(sroot):
                    continue
                for p in list_drf.lsdrf(sroot, **lkw):
                    want[os.path.normpath(os.path.join(rel, os.path.relpath(p, sroot)))] = p
            before = snap(src)
            cases += 1
            tag = {"args": args[:-2], "tree": sorted(before)[:40]}
            try:
                drf_command.main(args)
            except SystemExit as e:
                if e.code not in (0, None):
                    fails.append({"what": "drf %s exited with %s" % (args[0], e.code), "case": tag}); break
            after_src = snap(src)
            got = snap(dst) if os.path.isdir(dst) else {}
            if set(got) != set(want):
                fails.append({"what": "drf %s: destination holds %s, the listing selects %s" % (cmd, sorted(set(got) - set(want))[:3] + ["..."] if set(got) - set(want) else "missing " + str(sorted(set(want) - set(got))[:3]), sorted(want)[:3]), "case": tag}); break
            bad = None
            for rel, sp in want.items():
                relsrc = os.path.relpath(sp, src)
                h0 = before[relsrc][0]
                if cmd == "ln-sym":
                    if not got[rel][0].startswith("->") or os.path.realpath(os.path.join(dst, rel)) != os.path.realpath(sp):
                        bad = "ln --symbolic: %s is not a link to the source file" % rel
                elif cmd == "ln":
                    if got[rel][1] != before[relsrc][1]:
                        bad = "ln: %s is not a hard link to the source file" % rel
                elif got[rel][0] != h0:
                    bad = "%s: content of %s differs" % (cmd, rel)
            if cmd == "mv":
                gone = set(before) - set(after_src)
                if gone != {os.path.relpath(sp, src) for sp in want.values()}:
                    bad = "mv removed %s from the source, transferred %s" % (sorted(gone)[:3], sorted(want)[:3])
            elif after_src != before:
                bad = "%s changed the source tree" % cmd
            if bad:
                fails.append({"what": bad, "case": tag}); break
        except Exception as e:
            import traceback
            fails.append({"what": "exception %r %s" % (e, traceback.format_exc()[-300:])})
        finally:
            shutil.rmtree(base, ignore_errors=True)
        if len(fails) >= spec.get("max_failures", 1):
            break
    print(json.dumps({"failures": fails, "cases": cases}, default=str))


def _run(args):
    from digital_rf import drf_command
    try:
        drf_command.main(args)
    except TypeError:
        drf_command.main(["drf"] + args)


if __name__ == "__main__":
    main()
