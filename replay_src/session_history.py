"""Bounded replay for C11: several sessions on one channel directory and same-named channels under several top-level
directories; the reader returns the union with correct indices and bounds; a mismatching session is refused and leaves
the directory untouched; a session never alters a finalized file."""
import sys, os, json, random, shutil, tempfile, hashlib
import numpy as np
import digital_rf


def snap(root):
    out = {}
    for dp, dn, fn in os.walk(root):
        for f in fn:
            p = os.path.join(dp, f)
            out[os.path.relpath(p, root)] = hashlib.md5(open(p, "rb").read()).hexdigest()
    return out


def runs(model, s, e):
    out = []
    for k in sorted(k for k in model if s <= k <= e):
        if out and out[-1][0] + out[-1][1] == k:
            out[-1][1] += 1
        else:
            out.append([k, 1])
    return [(a, b) for a, b in out]


def main():
    spec = json.load(open(sys.argv[1]))
    rnd = random.Random(spec.get("seed", 0))
    fails = []
    cases = 0
    for _ in range(spec.get("cases", 20)):
        n, d, F, S = rnd.choice([(100, 1, 1000, 3600), (200, 3, 400, 2), (1000, 1, 1000, 10)])
        per_file = (F * n) // (1000 * d)
        base = tempfile.mkdtemp(prefix="drfses_")
        tops = [os.path.join(base, "top%d" % i) for i in range(rnd.choice([1, 2, 3]))]
        for t in tops:
            os.makedirs(os.path.join(t, "ch"))
        model = {}
        used_files = {}      # file period -> top index (a file period is recorded in one directory only)
        tag = {"n": n, "d": d, "F": F, "tops": len(tops), "sessions": []}
        cases += 1
        try:
            t0 = (1500000000000 // F) * F
            k0 = -((-t0 * n) // (1000 * d))
            nsess = rnd.randrange(2, 5)
            period = 0
            for sidx in range(nsess):
                top = rnd.randrange(len(tops))
                chdir = os.path.join(tops[top], "ch")
                # each session starts at the beginning of a fresh file period (never shared between directories)
                period += rnd.randrange(1, 4)
                start = -((-(t0 + period * F) * n) // (1000 * d)) + rnd.choice([0, 0, 3])
                nsamp = rnd.choice([1, per_file // 2 + 1, per_file, per_file + 7, 2 * per_file + 3])
                w = digital_rf.DigitalRFWriter(chdir, np.int32, S, F, start, n, d, uuid_str="s%d" % sidx, is_complex=False, is_continuous=False, marching_periods=False)
                data = np.arange(sidx * 100000, sidx * 100000 + nsamp, dtype=np.int32)
                w.rf_write(data)
                w.close()
                for j in range(nsamp):
                    model[start + j] = sidx * 100000 + j
                period += (nsamp * 1000 * d) // (n * F) + 1
                tag["sessions"].append({"top": top, "start": start, "n": nsamp})
                # a mismatching session on the same directory is refused and changes nothing
                if rnd.random() < 0.5:
                    before = snap(chdir)
                    bad = dict(dtype=np.int32, S=S, F=F, n=n, d=d, cplx=False, nsub=1, cont=False)
                    which = rnd.choice(["dtype", "byte order", "class", "S", "F", "n", "d", "cplx", "nsub", "cont"])
                    if which in ("byte order", "class"):
                        # same size, different byte order / type class
                        bad["dtype"] = np.dtype(">i4") if which == "byte order" else np.float32
                        which_key = "dtype"
                    else:
                        which_key = which
                    if which_key == which:
                        bad[which] = {"dtype": np.int16, "S": S * 2, "F": F * 2 if (S * 1000) % (F * 2) == 0 else F, "n": n + 1, "d": d + 1, "cplx": True, "nsub": 2, "cont": True}[which]
                    if bad[which_key] == {"dtype": np.int32, "S": S, "F": F, "n": n, "d": d, "cplx": False, "nsub": 1, "cont": False}[which_key]:
                        continue
                    try:
                        w2 = digital_rf.DigitalRFWriter(chdir, bad["dtype"], bad["S"], bad["F"], start + 10 ** 6, bad["n"], bad["d"], uuid_str="x", is_complex=bad["cplx"],
                                                        num_subchannels=bad["nsub"], is_continuous=bad["cont"], marching_periods=False)
                        w2.close()
                        fails.append({"what": "a session with a different %s was accepted on an existing channel" % which, "case": tag}); break
                    except (ValueError, RuntimeError):
                        pass
                    if snap(chdir) != before:
                        fails.append({"what": "a refused session (different %s) modified the channel directory" % which, "case": tag}); break
                # a later session must not alter finalized files: try to write into a recorded period
                if rnd.random() < 0.5:
                    before = snap(chdir)
                    w3 = digital_rf.DigitalRFWriter(chdir, np.int32, S, F, start, n, d, uuid_str="again", is_complex=False, is_continuous=False, marching_periods=False)
                    try:
                        w3.rf_write(np.arange(3, dtype=np.int32))
                        fails.append({"what": "a write into an already finalized file period was accepted", "case": tag}); break
                    except (RuntimeError, ValueError):
                        pass
                    # the writer stays usable for a later period
                    later = -((-(t0 + (period + 2) * F) * n) // (1000 * d)) - start
                    try:
                        w3.rf_write(np.arange(900000, 900004, dtype=np.int32), later)
                        for j in range(4):
                            model[start + later + j] = 900000 + j
                        period += 4
                    except Exception as e:
                        fails.append({"what": "after one refused write the writer could not write a later period: %r" % (e,), "case": tag}); break
                    w3.close()
                    after = snap(chdir)
                    changed = [f for f in before if f in after and after[f] != before[f]]
                    if changed:
                        fails.append({"what": "finalized files changed by a later session: %s" % changed[:3], "case": tag}); break
            if fails:
                break
            # ---- a session that starts EARLIER in a subdirectory and writes forward must still be refused at a file period an earlier
            #      session finalized there (the finalized file is not the first file this writer creates in that subdirectory)
            if (S * 1000) // F >= 3 and rnd.random() < 0.6:
                ch2 = os.path.join(tops[0], "later")
                os.makedirs(ch2)
                sub_ms = ((t0 // (S * 1000)) + 7) * S * 1000
                A = lambda p_: -((-(sub_ms + p_ * F) * n) // (1000 * d))
                st = A(0)
                wa = digital_rf.DigitalRFWriter(ch2, np.int32, S, F, st, n, d, uuid_str="first", is_complex=False, is_continuous=False, marching_periods=False)
                wa.rf_write(np.arange(7000, 7003, dtype=np.int32), A(1) - st)
                wa.close()
                before = snap(ch2)
                cases += 1
                wb = digital_rf.DigitalRFWriter(ch2, np.int32, S, F, st, n, d, uuid_str="second", is_complex=False, is_continuous=False, marching_periods=False)
                wb.rf_write(np.arange(8000, 8002, dtype=np.int32), 0)
                try:
                    wb.rf_write(np.arange(8100, 8102, dtype=np.int32), A(1) - st + 4)
                    fails.append({"what": "a writer that started earlier in the subdirectory wrote into a file period finalized by an earlier session", "case": tag}); break
                except (RuntimeError, ValueError):
                    pass
                try:
                    wb.rf_write(np.arange(8200, 8202, dtype=np.int32), A(2) - st)
                except Exception as e:
                    fails.append({"what": "after the refused write the writer could not write a later period: %r" % (e,), "case": tag}); break
                wb.close()
                after = snap(ch2)
                changed = [f for f in before if f not in after or after[f] != before[f]]
                if changed:
                    fails.append({"what": "finalized files changed or vanished after a later session: %s" % changed[:3], "case": tag}); break
                r2 = digital_rf.DigitalRFReader(tops[0])
                got = r2.read(A(1), A(1) + 2, "later")
                if [(int(k), [int(x) for x in np.asarray(v).ravel()]) for k, v in got.items()] != [(A(1), [7000, 7001, 7002])]:
                    fails.append({"what": "samples of the earlier session read back as %s" % {int(k): [int(x) for x in np.asarray(v).ravel()] for k, v in got.items()}, "case": tag}); break
            r = digital_rf.DigitalRFReader(tops if len(tops) > 1 else tops[0])
            lo, hi = min(model), max(model)
            b = r.get_bounds("ch")
            if (int(b[0]), int(b[1])) != (lo, hi):
                fails.append({"what": "get_bounds %s over %d top-level directories, union is (%d, %d)" % (b, len(tops), lo, hi), "case": tag}); break
            edges = sorted(set([lo, hi] + [k for k in model if k - 1 not in model or k + 1 not in model]))
            for _q in range(12):
                s, e = sorted((rnd.choice(edges) + rnd.choice([0, -1, 1]), rnd.choice(edges) + rnd.choice([0, -1, 1])))
                if e - s > 50000:
                    e = s + 5000
                got = r.read(s, e, "ch")
                gl = [(int(k), len(v)) for k, v in got.items()]
                if gl != runs(model, s, e):
                    fails.append({"what": "read(%d,%d) over %d directories: blocks %s, union of sessions %s" % (s, e, len(tops), gl[:5], runs(model, s, e)[:5]), "case": tag}); break
                for k, v in got.items():
                    if int(v.ravel()[0]) != model[int(k)] or int(v.ravel()[-1]) != model[int(k) + len(v) - 1]:
                        fails.append({"what": "read(%d,%d): wrong values in block %d" % (s, e, int(k)), "case": tag}); break
                if fails:
                    break
        except Exception as e:
            import traceback
            fails.append({"what": "exception %r %s" % (e, traceback.format_exc()[-300:]), "case": tag})
        finally:
            shutil.rmtree(base, ignore_errors=True)
        if len(fails) >= spec.get("max_failures", 1):
            break
    print(json.dumps({"failures": fails, "cases": cases}, default=str))


if __name__ == "__main__":
    main()
