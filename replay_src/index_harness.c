/* Replay harness: calls the real digital_rf_create_rf_data_index / digital_rf_get_global_sample of the current tree.
 * input (stdin): cursor needs_chunking is_continuous start  w left max V next file_exists L  g0..gL-1  b0..bL-1
 * output: rows_to_write samples_to_write isnull  then the rows */
#include <stdio.h>
#include <stdlib.h>
#include <string.h>
#include "digital_rf.h"
uint64_t * digital_rf_create_rf_data_index(Digital_rf_write_object *, uint64_t, uint64_t, uint64_t, uint64_t *, uint64_t *, uint64_t, uint64_t, uint64_t, int *, uint64_t *, int);
uint64_t digital_rf_get_global_sample(uint64_t, uint64_t *, uint64_t *, uint64_t);
int main(void)
{
	Digital_rf_write_object o;
	unsigned long long cursor, start, w, left, mx, V, next, L, x;
	int chunk, cont, fe, rows = -7;
	uint64_t stw = 0, *g, *b, *ret;
	memset(&o, 0, sizeof(o));
	if (scanf("%llu %d %d %llu %llu %llu %llu %llu %llu %d %llu", &cursor, &chunk, &cont, &start, &w, &left, &mx, &V, &next, &fe, &L) != 11) return 2;
	g = malloc(sizeof(uint64_t) * (L + 1)); b = malloc(sizeof(uint64_t) * (L + 1));
	for (unsigned long long i = 0; i < L; i++) { if (scanf("%llu", &x) != 1) return 2; g[i] = x; }
	for (unsigned long long i = 0; i < L; i++) { if (scanf("%llu", &x) != 1) return 2; b[i] = x; }
	o.global_index = cursor; o.needs_chunking = chunk; o.is_continuous = cont; o.global_start_sample = start;
	printf("%llu\n", (unsigned long long)digital_rf_get_global_sample(w, g, b, L));
	ret = digital_rf_create_rf_data_index(&o, w, left, mx, g, b, L, V, next, &rows, &stw, fe);
	printf("%d %llu %d\n", rows, (unsigned long long)stw, ret == NULL);
	for (int i = 0; ret && i < rows; i++) printf("%llu %llu\n", (unsigned long long)ret[2*i], (unsigned long long)ret[2*i+1]);
	return 0;
}
