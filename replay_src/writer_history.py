"""Replay driver (runs under /venv/bin/python with PYTHONPATH = overlay built from the current tree).
Executes write histories through the real DigitalRFWriter / C library and checks them against an exact model:
  C19 return values and counters, C05 atomic rejection, C04 file names, C06 per-file index invariant, C01 stored values.
usage: writer_history.py <json-spec-file>  -> prints one JSON line {"failures":[...], "histories": n, "calls": m}"""
import sys, os, json, glob, shutil, tempfile, random, hashlib, datetime
import numpy as np, h5py
import digital_rf

PS = 10 ** 12


def ceil_idx_ms(t_ms, n, d):
    num = t_ms * n
    den = 1000 * d
    return -((-num) // den)


def fms(k, n, d, F):
    return ((k * d * 1000) // n) // F * F


def snapshot(root):
    out = {}
    for dp, dn, fn in os.walk(root):
        for f in fn:
            p = os.path.join(dp, f)
            try:
                out[os.path.relpath(p, root)] = hashlib.md5(open(p, "rb").read()).hexdigest()
            except OSError:
                out[os.path.relpath(p, root)] = "?"
        for x in dn:
            out[os.path.relpath(os.path.join(dp, x), root) + "/"] = "dir"
    return out


def run_history(h, fails):
    n, d, S, F, start = h["n"], h["d"], h["S"], h["F"], h["start"]
    cont, comp, chk = h.get("continuous", False), h.get("compression", 0), h.get("checksum", False)
    nsub = h.get("nsub", 1)
    root = tempfile.mkdtemp(prefix="drfh_")
    model = {}          # absolute index -> value (first subchannel)
    cursor = 0
    written = 0
    gaps = 0
    tag = json.dumps(h)[:400]
    try:
        w = digital_rf.DigitalRFWriter(root, np.int64, S, F, start, n, d, uuid_str="u", compression_level=comp, checksum=chk,
                                       is_complex=False, num_subchannels=nsub, is_continuous=cont, marching_periods=False)
        val = 1
        for call in h["calls"]:
            kind = call["kind"]
            if kind == "write":
                N, at = call["len"], call["at"]          # at: offset relative to cursor (may be negative = invalid)
                idx = cursor + at
                data = np.arange(val, val + N, dtype=np.int64)
                if nsub > 1:
                    data = np.stack([data + 1000000 * c for c in range(nsub)], axis=1)
                valid = at >= 0
                before = snapshot(root) if not valid else None
                try:
                    r = w.rf_write(data, idx if idx >= 0 else 0)
                    ok = True
                except (ValueError, RuntimeError) as e:
                    ok = False
                if valid and N > 0:
                    if not ok:
                        fails.append({"what": "valid rf_write rejected", "history": tag, "call": call}); return
                    for j in range(N):
                        model[start + idx + j] = val + j
                    gaps += idx - cursor
                    cursor = idx + N
                    written += N
                    val += N
                    if r != cursor:
                        fails.append({"what": "rf_write returned %d, next available sample is %d" % (r, cursor), "history": tag, "call": call}); return
                elif not valid:
                    if ok:
                        fails.append({"what": "rf_write before the cursor accepted", "history": tag, "call": call}); return
                    if snapshot(root) != before:
                        fails.append({"what": "rejected rf_write changed the directory", "history": tag, "call": call}); return
            elif kind == "blocks":
                # blocks: list of (gap_before, length); first gap relative to cursor
                gl, bl, pos, g = [], [], 0, cursor
                for gap, ln in call["blocks"]:
                    g += gap
                    gl.append(g); bl.append(pos)
                    g += ln; pos += ln
                N = pos
                data = np.arange(val, val + N, dtype=np.int64)
                if nsub > 1:
                    data = np.stack([data + 1000000 * c for c in range(nsub)], axis=1)
                bad = call.get("corrupt")
                garr, barr = list(gl), list(bl)
                if bad == "overlap" and len(garr) > 1:
                    garr[-1] = garr[-2] + (barr[-1] - barr[-2]) - 1
                elif bad == "order" and len(barr) > 1:
                    barr[-1] = barr[-2]
                elif bad == "first" and N > 1:
                    barr[0] = 1
                elif bad == "past":
                    garr[0] = max(0, cursor - 1) if cursor > 0 else None
                elif bad == "beyond":
                    barr[-1] = N
                if bad and (garr[0] is None or (garr == gl and barr == bl)):
                    bad = None
                    garr, barr = list(gl), list(bl)
                before = snapshot(root) if bad else None
                try:
                    r = w.rf_write_blocks(data, np.array(garr, dtype=np.uint64), np.array(barr, dtype=np.uint64))
                    ok = True
                except (ValueError, RuntimeError) as e:
                    ok = False
                if bad:
                    if ok:
                        fails.append({"what": "malformed rf_write_blocks (%s) accepted" % bad, "history": tag, "call": call}); return
                    if snapshot(root) != before:
                        fails.append({"what": "rejected rf_write_blocks (%s) changed the directory" % bad, "history": tag, "call": call}); return
                else:
                    if not ok:
                        fails.append({"what": "valid rf_write_blocks rejected", "history": tag, "call": call, "g": gl, "b": bl}); return
                    for (gg, bb, nb) in zip(gl, bl, bl[1:] + [N]):
                        for j in range(nb - bb):
                            model[start + gg + j] = val + bb + j
                    gaps += (g - cursor) - N
                    cursor = g
                    written += N
                    val += N
                    if r != cursor:
                        fails.append({"what": "rf_write_blocks returned %d, next available sample is %d" % (r, cursor), "history": tag, "call": call, "g": gl, "b": bl}); return
            if (w.get_next_available_sample(), w.get_total_samples_written(), w.get_total_gap_samples()) != (cursor, written, gaps):
                fails.append({"what": "counters (next, written, gaps) = %s, model %s" % ((w.get_next_available_sample(), w.get_total_samples_written(), w.get_total_gap_samples()), (cursor, written, gaps)),
                              "history": tag, "call": call}); return
        lastf = w.get_last_file_written()
        w.close()
        # ---- inspect the tree with raw h5py
        files = sorted(glob.glob(root + "/*/rf@*.h5"))
        if glob.glob(root + "/*/tmp.rf@*.h5"):
            fails.append({"what": "tmp file left after close", "history": tag}); return
        seen = {}
        for f in files:
            sec, ms = os.path.basename(f)[3:-3].split(".")
            t = int(sec) * 1000 + int(ms)
            X1, X2 = ceil_idx_ms(t, n, d), ceil_idx_ms(t + F, n, d)
            dname = os.path.basename(os.path.dirname(f))
            dsec = (t // 1000) // S * S
            want_dir = (datetime.datetime(1970, 1, 1) + datetime.timedelta(seconds=dsec)).strftime("%Y-%m-%dT%H-%M-%S")
            with h5py.File(f, "r") as hf:
                idx = hf["rf_data_index"][...].astype(object)
                data = hf["rf_data"][...]
            ln = data.shape[0]
            rel = os.path.relpath(f, root)
            if t % F != 0 or dname != want_dir:
                fails.append({"what": "file %s: name is not a multiple of the cadence / wrong subdirectory (want %s)" % (rel, want_dir), "history": tag}); return
            rows = [(int(a), int(b)) for a, b in idx]
            prob = None
            if not rows or rows[0][1] != 0:
                prob = "index must start at offset 0"
            for (g0, o0), (g1, o1) in zip(rows, rows[1:]):
                if not (g1 > g0 and o1 > o0 and g1 - g0 >= o1 - o0):
                    prob = "rows not strictly increasing / overlapping: %s" % rows
            if rows and not (rows[-1][1] < ln):
                prob = "row offset beyond stored data (len %d): %s" % (ln, rows)
            if rows and not (rows[0][0] >= X1 and rows[-1][0] + (ln - rows[-1][1]) <= X2):
                prob = "samples outside the file window [%d,%d): rows %s len %d" % (X1, X2, rows, ln)
            if ln > X2 - X1:
                prob = "more samples (%d) than the window allows (%d)" % (ln, X2 - X1)
            if prob:
                fails.append({"what": "file %s: %s" % (rel, prob), "history": tag}); return
            for r_i, (g0, o0) in enumerate(rows):
                o_end = rows[r_i + 1][1] if r_i + 1 < len(rows) else ln
                for o in range(o0, o_end):
                    k = g0 + (o - o0)
                    v = int(data[o][0]) if data.ndim > 1 else int(data[o])
                    if k in seen:
                        fails.append({"what": "index %d stored twice (%s and %s)" % (k, seen[k], rel), "history": tag}); return
                    seen[k] = rel
                    fill = (cont and not comp and not chk)
                    if k in model:
                        if v != model[k]:
                            fails.append({"what": "file %s: sample %d holds %d, written value %d" % (rel, k, v, model[k]), "history": tag}); return
                        if fms(k, n, d, F) != t:
                            fails.append({"what": "sample %d stored in %s but its exact time belongs to file %d ms" % (k, rel, fms(k, n, d, F)), "history": tag}); return
                    elif not (fill and v == np.iinfo(np.int64).min):
                        fails.append({"what": "file %s presents a value (%d) at index %d that was never written" % (rel, v, k), "history": tag}); return
        missing = [k for k in model if k not in seen]
        if missing:
            fails.append({"what": "%d written samples are not in any file, e.g. %s" % (len(missing), sorted(missing)[:3]), "history": tag}); return
        if model and lastf:
            kmax = max(model)
            tl = fms(kmax, n, d, F)
            if os.path.basename(lastf) != "rf@%d.%03d.h5" % (tl // 1000, tl % 1000):
                fails.append({"what": "get_last_file_written %s does not hold the last sample %d" % (lastf, kmax), "history": tag}); return
    finally:
        shutil.rmtree(root, ignore_errors=True)


def gen_history(rnd):
    n, d = rnd.choice([(100, 1), (100, 1), (200, 3), (1000, 7), (10, 1)])
    F = rnd.choice([1000, 400, 2000])
    S = {1000: rnd.choice([1, 2, 3600]), 400: rnd.choice([2, 4]), 2000: rnd.choice([2, 10])}[F]
    start = rnd.choice([0, 1, 150000000000, ceil_idx_ms(1500000000000, n, d), ceil_idx_ms(1500000000000, n, d) + 37])
    cont = rnd.random() < 0.35
    comp = rnd.choice([0, 0, 0, 1])
    chk = rnd.random() < 0.15
    per_file = max(1, (F * n) // (1000 * d))
    calls = []
    cursor = 0
    def to_boundary(extra):
        # number of samples from cursor to the next file boundary (+extra)
        k = start + cursor
        t = fms(k, n, d, F)
        return ceil_idx_ms(t + F, n, d) - k + extra
    for _ in range(rnd.randrange(1, 7)):
        r = rnd.random()
        if r < 0.35:
            at = rnd.choice([0, 0, 0, 1, per_file, to_boundary(0), to_boundary(-1), rnd.randrange(0, 3 * per_file)])
            if rnd.random() < 0.12 and cursor > 0:
                at = -rnd.randrange(1, cursor + 1)
            ln = rnd.choice([1, 1, per_file, to_boundary(0) if at == 0 else 3, to_boundary(-1) if at == 0 and to_boundary(-1) > 0 else 2, rnd.randrange(1, 3 * per_file + 2)])
            calls.append({"kind": "write", "len": max(1, ln), "at": at})
            if at >= 0:
                cursor += at + max(1, ln)
        else:
            nb = 1 if cont and rnd.random() < 0.5 else rnd.randrange(1, 5)
            blocks = []
            c2 = cursor
            for i in range(nb):
                def tb(extra):
                    k = start + c2
                    t = fms(k, n, d, F)
                    return ceil_idx_ms(t + F, n, d) - k + extra
                gap = rnd.choice([0, 0, 1, tb(0), tb(-1), tb(1), per_file, rnd.randrange(0, 2 * per_file + 1)]) if (i > 0 or rnd.random() < 0.5) else 0
                gap = max(0, gap)
                if i > 0 and gap == 0:
                    gap = rnd.choice([1, max(1, tb(0))])
                c2 += gap
                ln = rnd.choice([1, 2, max(1, tb(0)), max(1, tb(-1)), max(1, tb(1)), rnd.randrange(1, 2 * per_file + 2)])
                blocks.append([gap, ln])
                c2 += ln
            call = {"kind": "blocks", "blocks": blocks}
            if rnd.random() < 0.15:
                call["corrupt"] = rnd.choice(["overlap", "order", "first", "past", "beyond"])
            else:
                cursor = c2
            calls.append(call)
    return {"n": n, "d": d, "S": S, "F": F, "start": start, "continuous": cont, "compression": comp, "checksum": chk,
            "nsub": rnd.choice([1, 1, 2]), "calls": calls}


def main():
    spec = json.load(open(sys.argv[1]))
    fails = []
    ncalls = 0
    hs = list(spec.get("histories", []))
    rnd = random.Random(spec.get("seed", 0))
    for _ in range(spec.get("random", 0)):
        hs.append(gen_history(rnd))
    done = 0
    for h in hs:
        try:
            run_history(h, fails)
        except Exception as e:
            fails.append({"what": "exception %r" % (e,), "history": json.dumps(h)[:400]})
        done += 1
        ncalls += len(h["calls"])
        if len(fails) >= spec.get("max_failures", 1):
            break
    print(json.dumps({"failures": fails, "histories": done, "calls": ncalls}))


if __name__ == "__main__":
    main()
