"""Bounded replay for C17: real DigitalRFMirror handlers driven by dispatch() on real recordings."""
import sys, os, json, random, shutil, tempfile, filecmp
import numpy as np
import digital_rf
from digital_rf import mirror as mir, list_drf
from watchdog.events import FileCreatedEvent, FileModifiedEvent


class NoWatcher:
    def __init__(self, *a, **k):
        pass

    def schedule(self, *a, **k):
        pass


def record(root, rnd):
    for ch in ("ch0", "ch1"):
        d = os.path.join(root, ch)
        os.makedirs(d)
        w = digital_rf.DigitalRFWriter(d, np.int16, 3600, 1000, 1500000000 * 100, 100, 1, uuid_str="u", is_complex=False, marching_periods=False)
        w.rf_write(np.arange(rnd.randrange(250, 450), dtype=np.int16))
        w.close()
        md = os.path.join(d, "metadata")
        os.makedirs(md)
        mw = digital_rf.DigitalMetadataWriter(md, 3600, 1, 100, 1, "metadata")
        for s in range(3):
            mw.write(1500000000 * 100 + 100 * s + 5, {"v": s})


def main():
    spec = json.load(open(sys.argv[1]))
    rnd = random.Random(spec.get("seed", 0))
    mir.watchdog_drf.DirWatcher = NoWatcher
    fails = []
    cases = 0
    for _ in range(spec.get("cases", 10)):
        method = rnd.choice(["copy", "move", "link"])
        root = tempfile.mkdtemp(prefix="drfmir_")
        src, dst = os.path.join(root, "src"), os.path.join(root, "dst")
        os.makedirs(src); os.makedirs(dst)
        cases += 1
        try:
            record(src, rnd)
            before = {os.path.relpath(p, src): open(p, "rb").read() for p in list_drf.lsdrf(src)}
            m = mir.DigitalRFMirror(src, dst, method=method)
            paths = list(list_drf.lsdrf(src))
            events = [FileCreatedEvent(p) for p in paths]
            hist = list(events)
            for p in rnd.sample(paths, min(len(paths), 4)):
                hist.append(rnd.choice([FileCreatedEvent, FileModifiedEvent])(p))       # duplicates / late events
            rnd.shuffle(hist)
            hist.append(FileCreatedEvent(os.path.join(src, "ch0", "2017-05-01T00-00-00", "rf@1493596800.000.h5")))   # stale: never existed
            for ev in hist:
                for h in m.event_handlers:
                    h.dispatch(ev)
            prob = None
            for rel, content in before.items():
                dp = os.path.join(dst, rel)
                if not os.path.exists(dp):
                    prob = "%s: %s missing under the destination" % (method, rel)
                elif open(dp, "rb").read() != content:
                    prob = "%s: %s differs from the source file" % (method, rel)
                isrf = os.path.basename(rel).startswith("rf@")
                isprop = rel.endswith("properties.h5")
                sp = os.path.join(src, rel)
                if method == "move" and isrf and os.path.exists(sp):
                    prob = "move: RF file %s still in the source" % rel
                if (method != "move" or isprop) and not os.path.exists(sp):
                    prob = "%s: %s removed from the source" % (method, rel)
            for dp, dn, fn in os.walk(dst):
                for f in fn:
                    if f.startswith("tmp."):
                        prob = "tmp file left in destination: %s" % f
            if method == "move":
                for ch in ("ch0", "ch1"):
                    mds = sorted(p for p in before if p.startswith(ch + "/metadata/") and "@" in p)
                    if mds and not os.path.exists(os.path.join(src, mds[-1])):
                        prob = "move: newest metadata file %s deleted from the source" % mds[-1]
            if prob:
                fails.append({"what": prob, "method": method})
        except Exception as e:
            import traceback
            fails.append({"what": "exception %r %s" % (e, traceback.format_exc()[-300:]), "method": method})
        finally:
            shutil.rmtree(root, ignore_errors=True)
        if len(fails) >= spec.get("max_failures", 1):
            break
    print(json.dumps({"failures": fails, "cases": cases}))


if __name__ == "__main__":
    main()
