"""Shared mathematical specification of Digital RF time arithmetic (DESIGN §3).

Every function works both on python ints (replay oracle, exact big-integer arithmetic) and on z3 Int terms
(relational form used in contracts).  n/d = sample rate (Hz), F = file cadence (ms), S = subdir cadence (s).
"""
import z3

PS = 10 ** 12
Y10K = 253402300800  # 10000-01-01T00:00:00Z


# ---- exact integer versions (oracle) -------------------------------------------------------------
def sec(k, n, d):
    return (k * d) // n


def ps(k, n, d):
    return (((k * d) % n) * PS) // n


def ceil_idx(s, p, n, d):
    num = (s * PS + p) * n
    den = d * PS
    return -((-num) // den)


def ms(k, n, d):
    return (k * d * 1000) // n


def fms(k, n, d, F):
    return (ms(k, n, d) // F) * F


def dsec(k, n, d, S):
    return (sec(k, n, d) // S) * S


def fstart(t_ms, n, d):
    return ceil_idx(t_ms // 1000, (t_ms % 1000) * 10 ** 9, n, d)


# ---- relational versions (contracts) ---------------------------------------------------------------
def floor_is(q, num, den):
    """q == floor(num/den) for den > 0"""
    return z3.And(q * den <= num, num < q * den + den)


def ceil_is(r, num, den):
    """r == ceil(num/den) for den > 0"""
    return z3.And(r * den >= num, (r - 1) * den < num)


_mo = [0]


def multiple_of(x, m):
    """x is a non-negative multiple of m (m > 0), stated with an explicit witness: exists j >= 0. x == j*m.
    (z3's mod with a symbolic divisor makes solvers wander; the existential is skolemised when assumed and
    instantiated by MBQI when proved.)"""
    _mo[0] += 1
    j = z3.Int("mult_j%d" % _mo[0])
    return z3.Exists([j], z3.And(j >= 0, x == j * m))
