#!/bin/bash
# build_overlay.sh <repo-tree> <outdir>
# Builds an importable copy of digital_rf (python sources + C extension) from the
# given working tree into <outdir>/digital_rf. Used for replays and test runs.
set -e
TREE=${1:?tree}; OUT=${2:?outdir}
PY=/venv/bin/python
mkdir -p "$OUT/digital_rf"
cp "$TREE"/python/digital_rf/*.py "$OUT/digital_rf/"
# _version.py is generated (git-ignored); always take the installed one (2.6.14)
cp /venv/lib/python3.12/site-packages/digital_rf/_version.py "$OUT/digital_rf/_version.py"
PYINC=$($PY -c "import sysconfig;print(sysconfig.get_paths()['include'])")
NPINC=$($PY -c "import numpy;print(numpy.get_include())")
EXT=$($PY -c "import sysconfig;print(sysconfig.get_config_var('EXT_SUFFIX'))")
gcc -O1 -shared -fPIC ${DRF_CFLAGS:-} -I"$TREE/c/include" -I/usr/include/hdf5/serial -I"$NPINC" -I"$PYINC" \
  "$TREE/python/lib/py_rf_write_hdf5.c" "$TREE/c/lib/rf_write_hdf5.c" \
  -L/usr/lib/x86_64-linux-gnu/hdf5/serial -lhdf5 -lm -o "$OUT/digital_rf/_py_rf_write_hdf5$EXT" 2>"$OUT/build.log" || { cat "$OUT/build.log" >&2; exit 1; }
# plain C library for ctypes replays
gcc -O1 -shared -fPIC ${DRF_CFLAGS:-} -I"$TREE/c/include" -I/usr/include/hdf5/serial "$TREE/c/lib/rf_write_hdf5.c" \
  -L/usr/lib/x86_64-linux-gnu/hdf5/serial -lhdf5 -lm -o "$OUT/libdigital_rf.so" 2>>"$OUT/build.log" || { cat "$OUT/build.log" >&2; exit 1; }
echo "$OUT"
