#!/bin/bash
cd /verif
declare -A M=( [C02c]="C02 C09" [C03c]="C03 C04" [C04c]="C04 C06" [C05c]="C05 C06" [C07c]="C07 C01" [C09c]="C09 C02" [C10c]="C10" [C13c]="C13 C12" [C15c]="C15" [C19c]="C19 C05" )
for s in ${1:-C02c C03c C04c C05c C07c C09c C10c C13c C15c C19c}; do
  echo "=== $s"
  tools/seeddemo.sh seeded/$s 2>&1 | cut -c1-200
  for c in ${M[$s]}; do
    D=$(mktemp -d /tmp/seedm.XXXXXX); mkdir -p $D/c $D/python
    cp -r /repo/c/include /repo/c/lib $D/c/; cp -r /repo/python/digital_rf /repo/python/lib $D/python/
    if (cd $D && patch -p1 -s < /verif/seeded/$s/patch.diff); then
      out=$(DVC_REPO=$D ./check $c --tier quick 2>&1); code=$?
      echo "check $c exit=$code labels: $(echo "$out" | grep '^obligation failed' | sort -u | cut -c20-90 | tr '\n' ';' | cut -c1-300)"
    else echo "check $c: patch failed"; fi
    rm -rf $D
  done
done
