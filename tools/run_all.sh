#!/bin/bash
# runs every registered check (quick by default) on /repo and refreshes evidence/
cd /verif
TIER=${1:-quick}
for c in C01 C02 C03 C04 C05 C06 C07 C08 C09 C10 C11 C12 C13 C14 C15 C16 C17 C18 C19 C20; do
  ./check $c --tier $TIER 2>&1 | grep -E "VIOLATION|UNDECIDED|-> exit" | cut -c1-200
done
