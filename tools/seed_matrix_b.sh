#!/bin/bash
cd /verif
declare -A M=( [C01b]="C01 C19" [C06b]="C06 C11" [C08b]="C08" [C11b]="C11 C08" [C12b]="C12 C13" [C14b]="C14" [C16b]="C16" [C17b]="C17" [C18b]="C18" [C20b]="C20" )
for s in C01b C06b C08b C11b C12b C14b C16b C17b C18b C20b; do
  echo "=== $s"
  tools/seeddemo.sh seeded/$s 2>&1 | cut -c1-200
  for c in ${M[$s]}; do
    D=$(mktemp -d /tmp/seedm.XXXXXX); mkdir -p $D/c $D/python
    cp -r /repo/c/include /repo/c/lib $D/c/; cp -r /repo/python/digital_rf /repo/python/lib $D/python/
    if (cd $D && patch -p1 -s < /verif/seeded/$s/patch.diff); then
      out=$(DVC_REPO=$D ./check $c --tier quick 2>&1); code=$?
      echo "check $c exit=$code labels: $(echo "$out" | grep '^obligation failed' | sort -u | cut -c20-90 | tr '\n' ';' | cut -c1-300)"
    else echo "check $c: patch failed"; fi
    rm -rf $D
  done
done
