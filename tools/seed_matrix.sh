#!/bin/bash
# runs every seeded change: demo with/without patch on the current /repo, then the listed checks against the patched scratch copy
cd /verif
declare -A M=( [C01a]="C01 C06" [C02a]="C02" [C03a]="C03" [C04a]="C04 C06" [C05a]="C05" [C06a]="C06 C19" [C07a]="C07" [C08a]="C08" [C09a]="C09 C02"
 [C10a]="C10" [C11a]="C11 C02" [C12a]="C12" [C13a]="C13" [C14a]="C14" [C15a]="C15" [C16a]="C16" [C17a]="C17 C16" [C18a]="C18" [C19a]="C19 C06" [C20a]="C20 C12" )
for s in $(ls seeded | sort); do
  echo "=== $s"
  tools/seeddemo.sh seeded/$s 2>&1 | cut -c1-200
  for c in ${M[$s]}; do
    D=$(mktemp -d /tmp/seedm.XXXXXX); mkdir -p $D/c $D/python
    cp -r /repo/c/include /repo/c/lib $D/c/; cp -r /repo/python/digital_rf /repo/python/lib $D/python/
    if (cd $D && patch -p1 -s < /verif/seeded/$s/patch.diff); then
      out=$(DVC_REPO=$D ./check $c --tier quick 2>&1); code=$?
      echo "check $c exit=$code labels: $(echo "$out" | grep '^obligation failed' | sort -u | cut -c20-90 | tr '\n' ';' | cut -c1-300)"
    else echo "check $c: patch failed"; fi
    rm -rf $D
  done
done
