#!/bin/bash
cd /verif
declare -A M=( [C01f]="C01 C06" [C06f]="C06 C11" [C08f]="C08 C01" [C11f]="C11 C08" [C12f]="C12" [C14f]="C14" [C16f]="C16" [C17f]="C17" [C18f]="C18" [C20f]="C20" )
for s in ${1:-C01f C06f C08f C11f C12f C14f C16f C17f C18f C20f}; do
  echo "=== $s"
  tools/seeddemo.sh seeded/$s 2>&1 | cut -c1-200
  for c in ${M[$s]}; do
    D=$(mktemp -d /tmp/seedm.XXXXXX); mkdir -p $D/c $D/python
    cp -r /repo/c/include /repo/c/lib $D/c/; cp -r /repo/python/digital_rf /repo/python/lib $D/python/
    if (cd $D && patch -p1 -s < /verif/seeded/$s/patch.diff); then
      out=$(DVC_REPO=$D ./check $c --tier quick 2>&1); code=$?
      echo "check $c exit=$code labels: $(echo "$out" | grep '^obligation failed' | sort -u | cut -c20-90 | tr '\n' ';' | cut -c1-300)"
    else echo "check $c: patch failed"; fi
    rm -rf $D
  done
done
