#!/bin/bash
cd /verif
declare -A M=( [C02i]="C02 C10" [C03i]="C03 C04" [C04i]="C04 C11" [C05i]="C05 C19" [C07i]="C07 C06" [C09i]="C09 C08" [C10i]="C10 C19" [C13i]="C13 C12" [C15i]="C15 C14" [C19i]="C19 C05" )
for s in ${1:-C02i C03i C04i C05i C07i C09i C10i C13i C15i C19i}; do
  echo "=== $s"
  tools/seeddemo.sh seeded/$s 2>&1 | cut -c1-200
  for c in ${M[$s]}; do
    D=$(mktemp -d /tmp/seedm.XXXXXX); mkdir -p $D/c $D/python
    cp -r /repo/c/include /repo/c/lib $D/c/; cp -r /repo/python/digital_rf /repo/python/lib $D/python/
    if (cd $D && patch -p1 -s < /verif/seeded/$s/patch.diff); then
      out=$(DVC_REPO=$D ./check $c --tier quick 2>&1); code=$?
      echo "check $c exit=$code labels: $(echo "$out" | grep '^obligation failed' | sort -u | cut -c20-90 | tr '\n' ';' | cut -c1-300)"
    else echo "check $c: patch failed"; fi
    rm -rf $D
  done
done
