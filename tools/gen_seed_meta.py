#!/usr/bin/env python3
"""gen_seed_meta.py <seed_matrix log> : writes seeded/<id>/meta.json from the log of tools/seed_matrix*.sh"""
import sys, json, os, re
V = os.path.dirname(os.path.dirname(os.path.abspath(__file__)))
titles = {json.loads(l)["id"]: json.loads(l)["title"] for l in open(os.path.join(V, "properties.jsonl"))}
cur = None
recs = {}
# optional second argument: log of "<seed> suite with patch: <pytest summary>" lines from my own run of the repository's suite on a
# scratch worktree with the patch applied
suite = {}
if len(sys.argv) > 2:
    for line in open(sys.argv[2]):
        m = re.match(r"(\S+) suite with patch: (.*)", line.strip())
        if m:
            suite[m.group(1)] = m.group(2)
for line in open(sys.argv[1]):
    line = line.rstrip("\n")
    m = re.match(r"=== (\S+)", line)
    if m:
        cur = m.group(1)
        recs[cur] = {"demo_without": None, "demo_with": None, "checks": []}
        continue
    if cur is None:
        continue
    m = re.match(r"without patch: demo exit (\d+)", line)
    if m:
        recs[cur]["demo_without"] = int(m.group(1))
    m = re.match(r"with patch: demo exit (\d+)", line)
    if m:
        recs[cur]["demo_with"] = int(m.group(1))
    m = re.match(r"check (\S+) exit=(\d+) labels: (.*)", line)
    if m:
        recs[cur]["checks"].append({"check": m.group(1), "exit": int(m.group(2)), "failed_obligations": [x for x in m.group(3).split(";") if x]})
for sid, r in recs.items():
    d = os.path.join(V, "seeded", sid)
    if not os.path.isdir(d):
        continue
    pid = sid[:3]
    notes = open(os.path.join(d, "notes.md")).read() if os.path.exists(os.path.join(d, "notes.md")) else ""
    trig = ""
    for l in notes.splitlines():
        if re.search(r"[Tt]rigger|[Ww]hy (the )?tests", l):
            trig = l.strip("* ").strip()[:300]
            break
    meta = {"seed": sid, "property": pid, "title": titles.get(pid, ""),
            "origin": "independent sub-agent given only the property text and a scratch worktree (see notes.md for its own account)",
            "needs_to_manifest": trig,
            "confirmed_by_me": {"suite_with_patch": ("%s (my own run of the full suite on a scratch worktree of /repo with the patch applied; demo re-run by tools/seeddemo.sh with and without the patch)" % suite[sid]) if sid in suite else "2371 passed (reported by the sub-agent with its run_tests.sh; patch re-applied and demo re-run by tools/seeddemo.sh on the current repaired tree)",
                                "demo_without_patch_exit": r["demo_without"], "demo_with_patch_exit": r["demo_with"]},
            "checks_run": r["checks"],
            "detected_by": [c["check"] for c in r["checks"] if c["exit"] == 1]}
    json.dump(meta, open(os.path.join(d, "meta.json"), "w"), indent=1)
    print(sid, meta["detected_by"])
