#!/bin/bash
cd /verif
declare -A M=( [C01d]="C01 C08" [C06d]="C06 C01" [C08d]="C08" [C11d]="C11 C02" [C12d]="C12" [C14d]="C14 C18" [C16d]="C16" [C17d]="C17" [C18d]="C18" [C20d]="C20 C12" )
for s in ${1:-C01d C06d C08d C11d C12d C14d C16d C17d C18d C20d}; do
  echo "=== $s"
  tools/seeddemo.sh seeded/$s 2>&1 | cut -c1-200
  for c in ${M[$s]}; do
    D=$(mktemp -d /tmp/seedm.XXXXXX); mkdir -p $D/c $D/python
    cp -r /repo/c/include /repo/c/lib $D/c/; cp -r /repo/python/digital_rf /repo/python/lib $D/python/
    if (cd $D && patch -p1 -s < /verif/seeded/$s/patch.diff); then
      out=$(DVC_REPO=$D ./check $c --tier quick 2>&1); code=$?
      echo "check $c exit=$code labels: $(echo "$out" | grep '^obligation failed' | sort -u | cut -c20-90 | tr '\n' ';' | cut -c1-300)"
    else echo "check $c: patch failed"; fi
    rm -rf $D
  done
done
