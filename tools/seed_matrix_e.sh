#!/bin/bash
cd /verif
declare -A M=( [C02e]="C02 C14" [C03e]="C03 C04" [C04e]="C04 C06" [C05e]="C05 C19" [C07e]="C07" [C09e]="C09 C08" [C10e]="C10 C02" [C13e]="C13 C12" [C15e]="C15" [C19e]="C19 C04" )
for s in ${1:-C02e C03e C04e C05e C07e C09e C10e C13e C15e C19e}; do
  echo "=== $s"
  tools/seeddemo.sh seeded/$s 2>&1 | cut -c1-200
  for c in ${M[$s]}; do
    D=$(mktemp -d /tmp/seedm.XXXXXX); mkdir -p $D/c $D/python
    cp -r /repo/c/include /repo/c/lib $D/c/; cp -r /repo/python/digital_rf /repo/python/lib $D/python/
    if (cd $D && patch -p1 -s < /verif/seeded/$s/patch.diff); then
      out=$(DVC_REPO=$D ./check $c --tier quick 2>&1); code=$?
      echo "check $c exit=$code labels: $(echo "$out" | grep '^obligation failed' | sort -u | cut -c20-90 | tr '\n' ';' | cut -c1-300)"
    else echo "check $c: patch failed"; fi
    rm -rf $D
  done
done
