#!/bin/bash
# seedtest.sh <patch.diff> <check-id>... : run checks against a scratch copy of /repo with the patch applied
P=$(realpath $1); shift
D=$(mktemp -d /tmp/seedt.XXXXXX)
mkdir -p $D/c $D/python
cp -r /repo/c/include /repo/c/lib $D/c/
cp -r /repo/python/digital_rf /repo/python/lib $D/python/
(cd $D && patch -p1 -s < $P) || { echo "patch failed"; rm -rf $D; exit 9; }
for ID in "$@"; do
  DVC_REPO=$D /verif/check $ID --tier quick 2>&1 | grep -E "VIOLATION|KNOWN|UNDECIDED|obligation failed|-> exit" | cut -c1-300 | head -12
done
rm -rf $D
