#!/bin/bash
# mutest.sh <check-id> <sed-expression> <file-relative-to-repo>   : run a check against a scratch copy of /repo with one edit
set -e
ID=$1; EXPR=$2; FILE=$3
D=$(mktemp -d /tmp/mut.XXXXXX)
mkdir -p $D/c $D/python
cp -r /repo/c/include /repo/c/lib $D/c/
cp -r /repo/python/digital_rf /repo/python/lib $D/python/
sed -i -E "$EXPR" $D/$FILE
diff <(cat /repo/$FILE) $D/$FILE | head -6
DVC_REPO=$D /verif/check $ID --tier quick | tail -8; echo "exit=${PIPESTATUS[0]}"
rm -rf $D
