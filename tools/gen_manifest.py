#!/usr/bin/env python3
"""Regenerates MANIFEST.json from checks_table.py and validates it against the schema."""
import json, os, sys
HERE = os.path.dirname(os.path.dirname(os.path.abspath(__file__)))
sys.path.insert(0, HERE)
from checks_table import CHECKS, NOT_APPLICABLE, ENGINES, NOTES
props = [json.loads(l)["id"] for l in open(os.path.join(HERE, "properties.jsonl"))]
checks = []
for pid in props:
    if pid not in CHECKS:
        continue
    c = CHECKS[pid]
    checks.append({
        "property_id": pid,
        "quick_cmd": f"./check {pid} --tier quick",
        "thorough_cmd": f"./check {pid} --tier thorough",
        "evidence_file": f"/verif/evidence/{pid}.json",
        "replay_cmd_template": f"./check {pid} --replay {{path}}",
        "engine": c.get("engine", "dvc"),
        "level_claimed": {"category": c["category"], "text": c["text"], "design_ref": c.get("design_ref", "DESIGN.md §4")},
        "level_note": c["note"],
        "technique": c["technique"],
    })
na = [{"property_id": p, "reason": NOT_APPLICABLE[p]} for p in props if p in NOT_APPLICABLE]
missing = [p for p in props if p not in CHECKS and p not in NOT_APPLICABLE]
assert not missing, f"properties neither claimed nor not_applicable: {missing}"
m = {
    "version": 1,
    "setup_cmd": "./setup.sh",
    "hooks": {
        "guard": "DIGITAL_RF_VERIF",
        "enable": "no hooks: contracts are sidecar files under /verif/contracts; /repo sources are parsed (clang JSON AST, python ast), never instrumented",
        "baseline_off_cmd": "cd /repo && /venv/bin/python -m pytest -ra -q -p no:cacheprovider --timeout=900 --continue-on-collection-errors",
        "source_commits": [],
        "add_only": True,
    },
    "engines": ENGINES,
    "checks": checks,
    "notes": NOTES,
    "not_applicable": na,
}
json.dump(m, open(os.path.join(HERE, "MANIFEST.json"), "w"), indent=1)
import jsonschema
jsonschema.validate(m, json.load(open("/root/.vp/MANIFEST.schema.json")))
print("MANIFEST.json ok:", len(checks), "checks,", len(na), "not_applicable")
