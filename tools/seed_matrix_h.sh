#!/bin/bash
cd /verif
declare -A M=( [C01h]="C01 C06" [C06h]="C06 C19" [C08h]="C08 C01" [C11h]="C11 C06" [C12h]="C12 C20" [C14h]="C14 C18" [C16h]="C16 C17" [C17h]="C17 C15" [C18h]="C18 C14" [C20h]="C20 C12" )
for s in ${1:-C01h C06h C08h C11h C12h C14h C16h C17h C18h C20h}; do
  echo "=== $s"
  tools/seeddemo.sh seeded/$s 2>&1 | cut -c1-200
  for c in ${M[$s]}; do
    D=$(mktemp -d /tmp/seedm.XXXXXX); mkdir -p $D/c $D/python
    cp -r /repo/c/include /repo/c/lib $D/c/; cp -r /repo/python/digital_rf /repo/python/lib $D/python/
    if (cd $D && patch -p1 -s < /verif/seeded/$s/patch.diff); then
      out=$(DVC_REPO=$D ./check $c --tier quick 2>&1); code=$?
      echo "check $c exit=$code labels: $(echo "$out" | grep '^obligation failed' | sort -u | cut -c20-90 | tr '\n' ';' | cut -c1-300)"
    else echo "check $c: patch failed"; fi
    rm -rf $D
  done
done
