#!/bin/bash
cd /verif
declare -A M=( [C02g]="C02 C09" [C03g]="C03" [C04g]="C04 C06" [C05g]="C05 C19" [C07g]="C07 C06" [C09g]="C09 C08" [C10g]="C10" [C13g]="C13 C12" [C15g]="C15" [C19g]="C19 C07" )
for s in ${1:-C02g C03g C04g C05g C07g C09g C10g C13g C15g C19g}; do
  echo "=== $s"
  tools/seeddemo.sh seeded/$s 2>&1 | cut -c1-200
  for c in ${M[$s]}; do
    D=$(mktemp -d /tmp/seedm.XXXXXX); mkdir -p $D/c $D/python
    cp -r /repo/c/include /repo/c/lib $D/c/; cp -r /repo/python/digital_rf /repo/python/lib $D/python/
    if (cd $D && patch -p1 -s < /verif/seeded/$s/patch.diff); then
      out=$(DVC_REPO=$D ./check $c --tier quick 2>&1); code=$?
      echo "check $c exit=$code labels: $(echo "$out" | grep '^obligation failed' | sort -u | cut -c20-90 | tr '\n' ';' | cut -c1-300)"
    else echo "check $c: patch failed"; fi
    rm -rf $D
  done
done
