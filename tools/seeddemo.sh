#!/bin/bash
# seeddemo.sh <seed-dir> : run the seed's demo on the current /repo with and without its patch -> prints the two exit codes
S=$(realpath $1)
for mode in without with; do
  D=$(mktemp -d /tmp/seedd.XXXXXX)
  mkdir -p $D/c $D/python
  cp -r /repo/c/include /repo/c/lib $D/c/; cp -r /repo/python/digital_rf /repo/python/lib $D/python/
  if [ $mode = with ]; then (cd $D && patch -p1 -s < $S/patch.diff) || { echo "patch failed"; rm -rf $D; continue; }; fi
  /verif/tools/build_overlay.sh $D $D/.ov >/dev/null 2>&1
  (cd $S && PYTHONPATH=$D/.ov timeout 600 /venv/bin/python demo.py >$D/demo.out 2>&1); echo "$mode patch: demo exit $? ($(tail -1 $D/demo.out | cut -c1-120))"
  rm -rf $D
done
