#!/bin/bash
# Builds /verif/.venv offline: python 3.12 (from /venv) + z3-solver, cvc5, jsonschema, crosshair from the
# local wheelhouse, plus a .pth that exposes /venv's site-packages (numpy, h5py, watchdog, pytest) so that one
# interpreter runs solvers and replays on the real code.
set -e
cd "$(dirname "$0")"
if [ -x .venv/bin/python ] && .venv/bin/python -c "import z3, cvc5, jsonschema, numpy, h5py" 2>/dev/null; then
  echo "venv ok"; exit 0
fi
rm -rf .venv
/venv/bin/python -m venv .venv
PIP_NO_INDEX=1 .venv/bin/pip install -q --no-index --find-links /opt/veriftools/wheels z3-solver cvc5 jsonschema crosshair-tool >/dev/null
SP=$(.venv/bin/python -c "import site;print(site.getsitepackages()[0])")
echo "import site; site.addsitedir('/venv/lib/python3.12/site-packages')" > "$SP/zz_venv_overlay.pth"
.venv/bin/python -c "import z3, cvc5, jsonschema, numpy, h5py; print('venv built', z3.get_version_string())"
