"""C front end + symbolic interpreter.

The verified text is the clang JSON AST (`clang -fsyntax-only -Xclang -ast-dump=json`) of the real translation unit of
/repo, re-dumped on every run: function bodies after preprocessing on this platform, implicit casts explicit.
Integer semantics: mathematical integers with an obligation at every + - * and narrowing cast that the result fits
the C type ('check' mode), or arithmetic modulo 2^N where the contract says wrap-around is intended ('wrap').
Floating point expressions are Opaque (never flow into anything a contract mentions; using one where an integer is
needed raises Undecided).
"""
import json, os, subprocess, hashlib, re
import z3
from .core import *
from . import smt

REPO = os.environ.get("DVC_REPO", "/repo")
INC = ["-I%s/c/include" % REPO, "-I/usr/include/hdf5/serial"]

INT_TYPES = {
    "char": (8, True), "signed char": (8, True), "unsigned char": (8, False),
    "short": (16, True), "unsigned short": (16, False),
    "int": (32, True), "unsigned int": (32, False),
    "long": (64, True), "unsigned long": (64, False),
    "long long": (64, True), "unsigned long long": (64, False),
    "_Bool": (1, False),
}
FLOAT_TYPES = {"float", "double", "long double"}


def strip_quals(t):
    t = re.sub(r"\b(const|volatile|restrict)\b", "", t)
    return re.sub(r"\s+", " ", t).strip()


class TU:
    """A parsed translation unit."""

    def __init__(self, path, extra_inc=(), defines=()):
        self.path = path
        self.src = open(path, "rb").read()
        self.sha = hashlib.sha256(self.src).hexdigest()
        cmd = ["clang"] + INC + list(extra_inc) + ["-D%s" % d for d in defines] + \
              ["-fsyntax-only", "-Xclang", "-ast-dump=json", path]
        p = subprocess.run(cmd, capture_output=True)
        if p.returncode != 0:
            raise Undecided("clang failed on %s: %s" % (path, p.stderr.decode()[:500]))
        self.ast = json.loads(p.stdout)
        self.funcs = {}
        self.records = {}
        self.typedefs = {}
        self.enums = {}
        self.globals = {}
        self._index()

    def _index(self):
        line = [0]
        fileflag = [None]

        def setlines(n, infile):
            # propagate line numbers (clang omits repeated ones)
            for key in ("loc",):
                loc = n.get(key)
                if isinstance(loc, dict):
                    l = loc.get("line") or (loc.get("expansionLoc") or {}).get("line")
                    if l:
                        line[0] = l
            rng = n.get("range", {}).get("begin", {})
            l = rng.get("line") or (rng.get("expansionLoc") or {}).get("line")
            if l:
                line[0] = l
            n["_line"] = line[0]
            for c in n.get("inner", []) or []:
                if c:
                    setlines(c, infile)

        cur_file = None
        for n in self.ast["inner"]:
            loc = n.get("loc", {})
            f = loc.get("file") or (loc.get("expansionLoc") or {}).get("file") or (loc.get("spellingLoc") or {}).get("file")
            if f:
                cur_file = f
            n["_file"] = cur_file
            k = n.get("kind")
            if k == "FunctionDecl" and any(c.get("kind") == "CompoundStmt" for c in n.get("inner", []) or []):
                line[0] = loc.get("line", line[0])
                setlines(n, cur_file)
                self.funcs[n["name"]] = n
            elif k == "RecordDecl" and n.get("completeDefinition"):
                self.records[n["id"]] = n
                if n.get("name"):
                    self.records["struct " + n["name"]] = n
            elif k == "TypedefDecl":
                self.typedefs[n["name"]] = n
            elif k == "EnumDecl":
                v = 0
                for c in n.get("inner", []) or []:
                    if c.get("kind") == "EnumConstantDecl":
                        vv = self._enum_value(c)
                        if vv is not None:
                            v = vv
                        self.enums[c["name"]] = v
                        v += 1
            elif k == "VarDecl":
                self.globals[n["name"]] = n

    def _enum_value(self, c):
        def find(n):
            if n.get("kind") == "ConstantExpr" and "value" in n:
                return int(n["value"])
            for ch in n.get("inner", []) or []:
                r = find(ch)
                if r is not None:
                    return r
            return None
        return find(c)

    def func_src(self, name):
        f = self.funcs[name]
        b, e = f["range"]["begin"], f["range"]["end"]
        bo = b.get("offset", (b.get("expansionLoc") or {}).get("offset"))
        eo = e.get("offset", (e.get("expansionLoc") or {}).get("offset"))
        return self.src[bo:eo + 1].decode("utf8", "replace")

    def func_info(self, name):
        f = self.funcs[name]
        txt = self.func_src(name)
        first = f["_line"]
        return {"name": name, "file": self.path, "line_first": first, "line_last": first + txt.count("\n"),
                "sha256": hashlib.sha256(txt.encode()).hexdigest()[:16]}


def qtype(n):
    t = n.get("type", {})
    return strip_quals(t.get("desugaredQualType") or t.get("qualType") or "")


class CType:
    __slots__ = ("kind", "bits", "signed", "elem", "n", "name")

    def __init__(self, kind, bits=0, signed=False, elem=None, n=None, name=None):
        self.kind, self.bits, self.signed, self.elem, self.n, self.name = kind, bits, signed, elem, n, name

    def rng(self):
        if self.signed:
            return (-(1 << (self.bits - 1)), (1 << (self.bits - 1)) - 1)
        return (0, (1 << self.bits) - 1)

    def __repr__(self):
        return "CType(%s,%s,%s,%s)" % (self.kind, self.bits, self.signed, self.name or self.elem)


class CInterp:
    def __init__(self, tu, contracts=None, externals=None, config=None):
        self.tu = tu
        self.contracts = contracts or {}     # callee name -> handler(interp, st, args, node) -> [(st, val)]
        self.externals = externals or {}
        self.config = config or {}
        self.obls = []
        self.func = None
        self.mode = "check"
        self.wrap_ok = set()
        self.in_wrap = False
        self.loop_specs = {}
        self.loop_counter = 0
        self.unroll_default = 0
        self.stats = {"paths": 0, "pruned": 0, "merged": 0}
        self.cuts = None
        self.cuts_hit = set()
        self.fit_cache = {}

    # ---------------------------------------------------------------- types
    def ctype(self, t):
        t = strip_quals(t)
        if t in INT_TYPES:
            b, s = INT_TYPES[t]
            return CType("int", b, s, name=t)
        if t in FLOAT_TYPES:
            return CType("float", name=t)
        if t == "void":
            return CType("void")
        m = re.match(r"^(.*)\[(\d+)\]$", t)
        if m:
            return CType("array", elem=m.group(1).strip(), n=int(m.group(2)))
        if t.endswith("*"):
            return CType("ptr", 64, False, elem=t[:-1].strip())
        if t.startswith("enum "):
            return CType("int", 32, False, name=t)
        if t.startswith("struct ") or t.startswith("union "):
            return CType("struct", name=t)
        if t in self.tu.typedefs:
            td = self.tu.typedefs[t]
            return self.ctype(td["type"].get("desugaredQualType") or td["type"]["qualType"])
        if "(" in t:
            return CType("func", name=t)
        raise Undecided("unknown C type %r" % t)

    def sizeof(self, t):
        ct = self.ctype(t)
        if ct.kind == "int":
            return max(1, ct.bits // 8)
        if ct.kind == "ptr":
            return 8
        if ct.kind == "float":
            return {"float": 4, "double": 8, "long double": 16}[ct.name]
        if ct.kind == "array":
            return ct.n * self.sizeof(ct.elem)
        if ct.kind == "struct":
            return None
        raise Undecided("sizeof %r" % t)

    # ---------------------------------------------------------------- obligations
    def oblige(self, st, label, goal, line, kind="safety", meta=None):
        goal = simp(goal) if isinstance(goal, z3.ExprRef) else goal
        if goal is True:
            return
        o = Obl(label, self.func, line, st.pc, B(goal), kind=kind, meta=dict(meta or {}), qhyps=st.qpc)
        if st.notes:
            o.bounded = "; ".join(sorted(set(st.notes)))
        self.obls.append(o)

    def fits(self, st, v, ct, line, what):
        if ct.kind != "int" or isinstance(v, (Opaque, Ptr)):
            return
        lo, hi = ct.rng()
        if is_conc(v):
            if not (lo <= int(v) <= hi):
                self.oblige(st, "nowrap.%s" % self.func, False, line, meta={"what": what})
            return
        self.oblige(st, "nowrap.%s" % self.func, z3.And(Z(v) >= lo, Z(v) <= hi), line, meta={"what": what})

    def wrap(self, v, ct):
        if ct.kind != "int" or isinstance(v, (Opaque, Ptr)):
            return v
        m = 1 << ct.bits
        if is_conc(v):
            v = int(v) % m
            if ct.signed and v >= m // 2:
                v -= m
            return v
        if ct.signed:
            return simp((Z(v) + m // 2) % m - m // 2)
        return simp(Z(v) % m)

    # ---------------------------------------------------------------- memory
    def read_path(self, val, path):
        for p in path:
            if isinstance(val, StructVal):
                if p not in val.fields:
                    raise Undecided("field %s not modelled" % (p,))
                val = val.fields[p]
            elif isinstance(val, list):
                if is_conc(p):
                    val = val[int(p)]
                else:
                    # symbolic index into a concrete list: build ITE chain (ints only)
                    r = val[-1]
                    for k in range(len(val) - 2, -1, -1):
                        r = self._ite(Z(p) == k, val[k], r)
                    val = r
            else:
                raise Undecided("read path %r into %r" % (path, val))
        return val

    def write_path(self, val, path, new):
        if not path:
            return new
        p = path[0]
        if isinstance(val, StructVal):
            return val.set(p, self.write_path(val.fields.get(p), path[1:], new))
        if isinstance(val, list):
            if is_conc(p):
                l = list(val)
                l[int(p)] = self.write_path(val[int(p)], path[1:], new)
                return l
            l = []
            for k, old in enumerate(val):
                l.append(self._ite(Z(p) == k, self.write_path(old, path[1:], new), old))
            return l
        raise Undecided("write path %r into %r" % (path, val))

    def _ite(self, c, a, b):
        if a is b:
            return a
        if isinstance(a, (Opaque,)) or isinstance(b, (Opaque,)):
            return Opaque("ite")
        if isinstance(a, ArrVal) and isinstance(b, ArrVal):
            return ArrVal(z3.If(B(c), a.arr, b.arr), self._ite(c, a.length, b.length), a.elem)
        if isinstance(a, StructVal) and isinstance(b, StructVal):
            return StructVal({k: self._ite(c, a.fields[k], b.fields[k]) for k in a.fields})
        if isinstance(a, list) and isinstance(b, list) and len(a) == len(b):
            return [self._ite(c, x, y) for x, y in zip(a, b)]
        if isinstance(a, (Ptr, SStr)) or isinstance(b, (Ptr, SStr)):
            if isinstance(a, SStr) and isinstance(b, SStr) and a.key() == b.key():
                return a
            if isinstance(a, Ptr) and isinstance(b, Ptr) and a.obj == b.obj and a.path == b.path and \
                    a.nullflag is b.nullflag and (a.idx is b.idx or (is_conc(a.idx) and is_conc(b.idx) and a.idx == b.idx)):
                return a
            raise _NoMerge()
        if a is None or b is None:
            if a is None and b is None:
                return None
            raise _NoMerge()
        if is_conc(a) and is_conc(b) and a == b:
            return a
        if z3.is_bool(a) or z3.is_bool(b) or isinstance(a, bool) or isinstance(b, bool):
            if (z3.is_bool(a) or isinstance(a, bool)) and (z3.is_bool(b) or isinstance(b, bool)):
                return simp(z3.If(B(c), B(a), B(b)))
        return simp(z3.If(B(c), Z(a), Z(b)))

    def load(self, st, lv, line):
        oid, path = lv
        if oid not in st.mem:
            raise Undecided("load from unknown object %r" % (oid,))
        val = st.mem[oid]
        # array element access on ArrVal
        out = val
        for k, p in enumerate(path):
            if isinstance(out, ArrVal):
                self.oblige(st, "bounds.%s" % self.func, z3.And(Z(p) >= 0, Z(p) < Z(out.length)), line,
                            meta={"what": "index"})
                out = z3.Select(out.arr, Z(p))
                if path[k + 1:]:
                    raise Undecided("nested path in ArrVal")
                return simp(out)
            if isinstance(out, SStr):
                # character access into a symbolic string
                return ("strchar", out, p)
            out = self.read_path(out, (p,))
        return out

    def store(self, st, lv, v, line):
        oid, path = lv
        if oid not in st.mem:
            raise Undecided("store to unknown object %r" % (oid,))
        val = st.mem[oid]
        # find ArrVal along path
        def rec(cur, path):
            if not path:
                return v
            p = path[0]
            if isinstance(cur, ArrVal):
                self.oblige(st, "bounds.%s" % self.func, z3.And(Z(p) >= 0, Z(p) < Z(cur.length)), line,
                            meta={"what": "index(store)"})
                if isinstance(v, (Opaque, Ptr)):
                    raise Undecided("storing non-integer into integer array")
                return ArrVal(z3.Store(cur.arr, Z(p), Z(v)), cur.length, cur.elem)
            if isinstance(cur, StructVal):
                return cur.set(p, rec(cur.fields.get(p), path[1:]))
            if isinstance(cur, list):
                if is_conc(p):
                    l = list(cur)
                    l[int(p)] = rec(cur[int(p)], path[1:])
                    return l
                return [self._ite(Z(p) == k, rec(old, path[1:]), old) for k, old in enumerate(cur)]
            if isinstance(cur, SStr):
                # writing a char into a string buffer (e.g. stripping a trailing '/'): content becomes unknown
                return SStr((("sym", "edited:" + repr(cur.key())[:40]),))
            raise Undecided("store path %r in %r" % (path, cur))
        st.mem[oid] = rec(val, path)

    # ---------------------------------------------------------------- running a function
    def setup_frame(self, st, fn, args):
        st.frame += 1
        params = [c for c in fn.get("inner", []) if c.get("kind") == "ParmVarDecl"]
        if len(params) != len(args):
            raise Undecided("arity mismatch calling %s" % fn["name"])
        for p, a in zip(params, args):
            oid = st.new_obj(a, p.get("name", "p"))
            st.env[(st.frame, p["id"])] = oid
        return params

    def run_function(self, name, st, args, spec=None):
        """Symbolically executes the body. Returns list of (state, retval) for every feasible path."""
        if name not in self.tu.funcs:
            raise Undecided("function %s not found in %s (renamed or removed?)" % (name, self.tu.path))
        fn = self.tu.funcs[name]
        saved = (self.func, self.mode, self.wrap_ok, self.loop_specs, self.loop_counter, self.unroll_default)
        spec = spec or {}
        self.func = name
        self.mode = spec.get("overflow", "check")
        self.wrap_ok = set(spec.get("wrap_ok", ()))
        self.loop_specs = spec.get("loops", {})
        self.unroll_default = spec.get("unroll", 0)
        self.loop_counter = 0
        saved_ord = getattr(self, "loop_ordinals", None)
        self.loop_ordinals = {}
        def _number(nd):
            if nd.get("kind") in ("WhileStmt", "ForStmt", "DoStmt"):
                self.loop_ordinals[nd["id"]] = len(self.loop_ordinals) + 1
            for c in nd.get("inner", []) or []:
                if c:
                    _number(c)
        _number(fn)
        saved_cuts = (getattr(self, "cuts", None), getattr(self, "cuts_hit", None))
        self.cuts = spec.get("cuts")
        self.cuts_hit = set()
        frame_before = st.frame
        st = st.copy()
        if self.cuts:
            st.ghost["entry_pc"] = len(st.pc)
            st.ghost["asg"] = {}
            st.ghost["cutghost"] = {}
        self.setup_frame(st, fn, args)
        body = [c for c in fn["inner"] if c.get("kind") == "CompoundStmt"][0]
        outs = []
        for s2, flow in self.exec_stmt(body, st):
            if flow[0] == "return":
                rv = flow[1]
            elif flow[0] == "next":
                rv = None
            elif flow[0] in ("exit", "abort"):
                continue
            else:
                raise Undecided("flow %r escaped function" % (flow,))
            s2.frame = frame_before
            outs.append((s2, rv))
            self.stats["paths"] += 1
        if self.cuts and set(self.cuts) - self.cuts_hit:
            raise Undecided("stage lemmas of %s not reached: %s (assignments renamed or reordered; contract needs review)" % (name, sorted(set(self.cuts) - self.cuts_hit)))
        self.cuts, self.cuts_hit = saved_cuts
        self.loop_ordinals = saved_ord
        (self.func, self.mode, self.wrap_ok, self.loop_specs, self.loop_counter, self.unroll_default) = saved
        return outs

    # ---------------------------------------------------------------- statements
    def feasible(self, st, extra=None):
        hyps = st.pc + ([B(extra)] if extra is not None else [])
        ok = smt.quick_sat(hyps, self.config.get("prune_ms", 300), self.config.get("prune_full", True))
        if not ok:
            self.stats["pruned"] += 1
        return ok

    def branch(self, st, cond):
        """returns [(state, True/False)] for feasible outcomes of cond"""
        cond = simp(B(cond))
        if cond is True:
            return [(st, True)]
        if cond is False:
            return [(st, False)]
        out = []
        if self.feasible(st, cond):
            s1 = st.copy()
            s1.pc.append(cond)
            out.append((s1, True))
        ncond = simp(z3.Not(cond))
        if self.feasible(st, ncond):
            s2 = st.copy()
            s2.pc.append(B(ncond))
            out.append((s2, False))
        return out

    def exec_stmt(self, n, st):
        k = n["kind"]
        m = getattr(self, "st_" + k, None)
        if m is None:
            # expression statement
            return [(s, ("next",)) for s, _ in self.eval(n, st)]
        return m(n, st)

    def st_CompoundStmt(self, n, st):
        return self.exec_seq(n.get("inner", []) or [], st)

    def exec_seq(self, stmts, st):
        cur = [(st, ("next",))]
        for s in stmts:
            nxt = []
            for st1, flow in cur:
                if flow[0] != "next":
                    nxt.append((st1, flow))
                else:
                    nxt.extend(self.exec_stmt(s, st1))
            cur = nxt
        return cur

    def st_NullStmt(self, n, st):
        return [(st, ("next",))]

    def st_DeclStmt(self, n, st):
        cur = [st]
        for d in n.get("inner", []):
            if d["kind"] == "VarDecl":
                nxt = []
                for s in cur:
                    nxt.extend(self.declare(d, s))
                cur = nxt
            elif d["kind"] in ("RecordDecl", "TypedefDecl", "EnumDecl"):
                if d["kind"] == "RecordDecl":
                    self.tu.records[d["id"]] = d
                    if d.get("name"):
                        self.tu.records["struct " + d["name"]] = d
            else:
                raise Undecided("decl kind %s" % d["kind"])
        return [(s, ("next",)) for s in cur]

    def default_value(self, t, zero=False):
        ct = self.ctype(t)
        if ct.kind == "int":
            return 0 if zero else fresh_int("uninit")
        if ct.kind == "float":
            return Opaque("float")
        if ct.kind == "ptr":
            return NULL if zero else Ptr(None, 0, (), fresh_bool("uninitptr"))
        if ct.kind == "array":
            ect = self.ctype(ct.elem)
            if ect.kind == "int" and ect.bits == 8:
                return SStr(()) if zero else SStr((("sym", "uninit%d" % next(_ctr)),))
            return [self.default_value(ct.elem, zero) for _ in range(ct.n)]
        if ct.kind == "struct":
            rec = self.tu.records.get(ct.name)
            if rec is None:
                return Opaque("struct " + str(ct.name))
            return StructVal({f["name"]: self.default_value(qtype(f), zero) for f in rec.get("inner", []) if f.get("kind") == "FieldDecl"})
        raise Undecided("default value for %r" % t)

    def declare(self, d, st):
        t = qtype(d)
        inits = [c for c in d.get("inner", []) or [] if c.get("kind") not in (None,)]
        outs = []
        if not inits or "init" not in d:
            st = st.copy()
            oid = st.new_obj(self.default_value(t), d["name"])
            st.env[(st.frame, d["id"])] = oid
            return [st]
        for s, v in self.eval_init(inits[-1], t, st):
            oid = s.new_obj(v, d["name"])
            s.env[(s.frame, d["id"])] = oid
            outs.append(s)
        return outs

    def eval_init(self, n, t, st):
        ct = self.ctype(t)
        if n["kind"] == "InitListExpr":
            if ct.kind == "array":
                elems = n.get("inner", []) or []
                if "array_filler" in n:
                    elems = [e for e in n["array_filler"] if e.get("kind") != "ImplicitValueInitExpr"]
                ect = self.ctype(ct.elem)
                if ect.kind == "int" and ect.bits == 8 and not elems:
                    return [(st, SStr(()))]
                cur = [(st, [])]
                for e in elems:
                    nxt = []
                    for s, acc in cur:
                        for s2, v in self.eval_init(e, ct.elem, s):
                            nxt.append((s2, acc + [v]))
                    cur = nxt
                res = []
                for s, acc in cur:
                    acc = acc + [self.default_value(ct.elem, True) for _ in range(ct.n - len(acc))]
                    res.append((s, acc))
                return res
            if ct.kind == "struct":
                rec = self.tu.records.get(ct.name)
                fields = [f for f in rec["inner"] if f.get("kind") == "FieldDecl"]
                elems = n.get("inner", []) or []
                cur = [(st, {})]
                for f, e in zip(fields, elems):
                    nxt = []
                    for s, acc in cur:
                        for s2, v in self.eval_init(e, qtype(f), s):
                            a2 = dict(acc)
                            a2[f["name"]] = v
                            nxt.append((s2, a2))
                    cur = nxt
                res = []
                for s, acc in cur:
                    for f in fields:
                        if f["name"] not in acc:
                            acc[f["name"]] = self.default_value(qtype(f), True)
                    res.append((s, StructVal(acc)))
                return res
            # scalar in braces
            return self.eval_init(n["inner"][0], t, st)
        if n["kind"] == "ImplicitValueInitExpr":
            return [(st, self.default_value(t, True))]
        if ct.kind == "array" and n["kind"] == "StringLiteral":
            return [(st, SStr((self.strlit(n),)))]
        return self.eval(n, st)

    def strlit(self, n):
        v = n.get("value", '""')
        try:
            return json.loads(v)
        except Exception:
            return v.strip('"')

    def st_IfStmt(self, n, st):
        inner = n["inner"]
        cond, then = inner[0], inner[1]
        els = inner[2] if len(inner) > 2 else None
        outs = []
        for s0, c in self.eval(cond, st):
            cb = simp(B(self.truth(c)))
            if cb is True:
                outs.extend(self.exec_stmt(then, s0))
                continue
            if cb is False:
                if els is not None:
                    outs.extend(self.exec_stmt(els, s0))
                else:
                    outs.append((s0, ("next",)))
                continue
            br = self.branch(s0, cb)
            res_t = res_e = None
            for s1, val in br:
                if val:
                    res_t = self.exec_stmt(then, s1)
                else:
                    res_e = self.exec_stmt(els, s1) if els is not None else [(s1, ("next",))]
            merged = self.try_merge(s0, cb, res_t, res_e)
            outs.extend(merged)
        return outs

    def try_merge(self, s0, cb, res_t, res_e):
        """If-conversion: when both arms end in exactly one fall-through state with identical traces, merge them."""
        allres = (res_t or []) + (res_e or [])
        if res_t is None or res_e is None:
            return allres
        nt = [(s, f) for s, f in res_t if f[0] == "next"]
        ne = [(s, f) for s, f in res_e if f[0] == "next"]
        if len(nt) != 1 or len(ne) != 1 or self.config.get("no_merge"):
            return allres
        a, b = nt[0][0], ne[0][0]
        if len(a.trace) != len(b.trace) or any(x is not y for x, y in zip(a.trace, b.trace)):
            return allres
        if a.ghost != b.ghost or a.env != b.env or a.notes != b.notes or set(a.mem) != set(b.mem):
            return allres
        try:
            mem = {}
            for oid in a.mem:
                va, vb = a.mem[oid], b.mem[oid]
                mem[oid] = va if va is vb else self._ite(cb, va, vb)
        except (_NoMerge, Undecided):
            return allres
        m = s0.copy()
        m.mem = mem
        m._next = max(a._next, b._next)
        n0 = len(s0.pc)
        ea, eb = a.pc[n0 + 1:], b.pc[n0 + 1:]
        if ea or eb:
            m.pc.append(z3.Or(z3.And([cb] + ea), z3.And([z3.Not(cb)] + eb)))
        self.stats["merged"] += 1
        others = [(s, f) for s, f in allres if f[0] != "next"]
        return others + [(m, ("next",))]

    def st_ReturnStmt(self, n, st):
        inner = n.get("inner", []) or []
        if not inner:
            return [(st, ("return", None))]
        return [(s, ("return", v)) for s, v in self.eval(inner[0], st)]

    def st_BreakStmt(self, n, st):
        return [(st, ("break",))]

    def st_ContinueStmt(self, n, st):
        return [(st, ("continue",))]

    def st_WhileStmt(self, n, st):
        cond, body = n["inner"][0], n["inner"][1]
        return self.loop(n, st, None, cond, None, body)

    def st_ForStmt(self, n, st):
        init, _decl, cond, inc, body = n["inner"]
        cur = [(st, ("next",))]
        if init:
            cur = self.exec_stmt(init, st)
        outs = []
        for s, f in cur:
            outs.extend(self.loop(n, s, None, cond if cond else None, inc if inc else None, body))
        return outs

    def loop(self, n, st, init, cond, inc, body):
        ordinal = self.loop_ordinals.get(n["id"])
        if ordinal is None:
            raise EngineError("loop without ordinal")
        spec = self.loop_specs.get(ordinal)
        if spec and "invariant" in spec:
            return self.loop_invariant(n, st, ordinal, spec, cond, inc, body)
        bound = (spec or {}).get("unroll", self.unroll_default)
        if not bound:
            raise Undecided("loop #%d of %s at line %s has neither invariant nor unrolling bound" % (ordinal, self.func, n["_line"]))
        outs = []
        cur = [st]
        for it in range(bound + 1):
            nxt = []
            for s in cur:
                conds = self.eval(cond, s) if cond else [(s, True)]
                for s1, c in conds:
                    for s2, val in self.branch(s1, self.truth(c)):
                        if not val:
                            outs.append((s2, ("next",)))
                            continue
                        if it == bound:
                            # unwinding assumption: paths needing more iterations are not explored
                            self.unwound = getattr(self, "unwound", 0) + 1
                            continue
                        for s3, f in self.exec_stmt(body, s2):
                            if f[0] == "break":
                                outs.append((s3, ("next",)))
                            elif f[0] in ("next", "continue"):
                                if inc:
                                    for s4, _ in self.eval(inc, s3):
                                        nxt.append(s4)
                                else:
                                    nxt.append(s3)
                            else:
                                outs.append((s3, f))
            cur = nxt
            if not cur:
                break
        for s, f in outs:
            s.notes.append("loop#%d@%s unrolled<=%d" % (ordinal, self.func, bound))
        return outs

    def loop_invariant(self, n, st, ordinal, spec, cond, inc, body):
        """Cut the loop at its head with the sidecar invariant.
        spec: {'invariant': f(interp, state) -> [(label, z3bool)], 'modifies': [var names], 'havoc': f(interp,state)}"""
        line = n["_line"]
        # 1. establish
        st.ghost["inv_mode"] = "prove"
        for label, g in spec["invariant"](self, st):
            self.oblige(st, "%s.loop%d.init.%s" % (self.func, ordinal, label), g, line, kind="inv")
        # 2. arbitrary iteration
        h = st.copy()
        spec["havoc"](self, h)
        h.ghost["inv_mode"] = "assume"
        for label, g in spec["invariant"](self, h):
            h.assume(g)
        h.ghost["inv_mode"] = "prove"
        outs = []
        conds = self.eval(cond, h) if cond else [(h, True)]
        for s1, c in conds:
            for s2, val in self.branch(s1, self.truth(c)):
                if not val:
                    if spec.get("on_exit"):
                        spec["on_exit"](self, s2)
                    outs.append((s2, ("next",)))
                    continue
                for s3, f in self.exec_stmt(body, s2):
                    if f[0] == "break":
                        if spec.get("on_exit"):
                            spec["on_exit"](self, s3)
                        outs.append((s3, ("next",)))
                    elif f[0] in ("next", "continue"):
                        ends = [s3]
                        if inc:
                            ends = [s4 for s4, _ in self.eval(inc, s3)]
                        for s4 in ends:
                            for label, g in spec["invariant"](self, s4):
                                self.oblige(s4, "%s.loop%d.preserve.%s" % (self.func, ordinal, label), g, line, kind="inv")
                    else:
                        outs.append((s3, f))
        return outs

    def st_SwitchStmt(self, n, st):
        cond = n["inner"][0]
        body = n["inner"][1]
        stmts = body.get("inner", []) or []
        # flatten case labels: list of (labelvalue or 'default' or None, stmt)
        flat = []
        def add(s):
            if s["kind"] == "CaseStmt":
                val = self.const_value(s["inner"][0])
                flat.append((("case", val), None))
                add(s["inner"][-1])
            elif s["kind"] == "DefaultStmt":
                flat.append((("default",), None))
                add(s["inner"][-1])
            else:
                flat.append((None, s))
        for s in stmts:
            add(s)
        outs = []
        for s0, v in self.eval(cond, st):
            cases = [lab[1] for lab, _ in flat if lab and lab[0] == "case"]
            targets = [("case", c) for c in cases] + [("default",)]
            for tgt in targets:
                if tgt[0] == "case":
                    c = Z(v) == tgt[1]
                else:
                    c = z3.And([Z(v) != cv for cv in cases]) if cases else True
                    if not any(lab == ("default",) for lab, _ in flat):
                        # no default: fallthrough past switch
                        for s1, val in self.branch(s0, c):
                            if val:
                                outs.append((s1, ("next",)))
                        continue
                for s1, val in self.branch(s0, c):
                    if not val:
                        continue
                    idx = [i for i, (lab, _) in enumerate(flat) if lab == tgt][0]
                    seq = [s for lab, s in flat[idx:] if s is not None]
                    for s2, f in self.exec_seq(seq, s1):
                        if f[0] == "break":
                            outs.append((s2, ("next",)))
                        else:
                            outs.append((s2, f))
        return outs

    def const_value(self, n):
        if "value" in n and n["kind"] in ("ConstantExpr", "IntegerLiteral"):
            return int(n["value"])
        for c in n.get("inner", []) or []:
            v = self.const_value(c)
            if v is not None:
                return v
        return None

    # ---------------------------------------------------------------- expressions
    def truth(self, v):
        if isinstance(v, Ptr):
            if v.obj is None and v.nullflag is None:
                return False
            if v.nullflag is not None:
                return z3.Not(v.nullflag)
            return True
        if isinstance(v, Opaque):
            raise Undecided("branch on opaque value %r in %s" % (v, self.func))
        if isinstance(v, tuple) and v and v[0] == "strchar":
            raise Undecided("branch on string character")
        return B(v)

    def eval(self, n, st):
        """-> list of (state, value)"""
        m = getattr(self, "ex_" + n["kind"], None)
        if m is None:
            raise Undecided("expression kind %s at %s:%s" % (n["kind"], self.func, n.get("_line")))
        return m(n, st)

    def lvalue(self, n, st):
        """-> list of (state, (oid, path))"""
        k = n["kind"]
        if k == "ParenExpr":
            return self.lvalue(n["inner"][0], st)
        if k == "DeclRefExpr":
            d = n["referencedDecl"]
            key = (st.frame, d["id"])
            if key not in st.env:
                if d["name"] in self.tu.globals or d["kind"] == "VarDecl":
                    gk = ("g", d["id"])
                    if gk not in st.env:
                        st = st.copy()
                        oid = st.new_obj(Opaque("global " + d["name"]), d["name"])
                        st.env[gk] = oid
                    return [(st, (st.env[gk], ()))]
                raise Undecided("unbound variable %s" % d.get("name"))
            return [(st, (st.env[key], ()))]
        if k == "MemberExpr":
            base = n["inner"][0]
            outs = []
            if n.get("isArrow"):
                for s, p in self.eval(base, st):
                    if not isinstance(p, Ptr) or p.obj is None:
                        raise Undecided("-> on non-pointer %r" % (p,))
                    outs.append((s, (p.obj, tuple(p.path) + (() if (is_conc(p.idx) and p.idx == 0) else (p.idx,)) + (n["name"],))))
            else:
                for s, (oid, path) in self.lvalue(base, st):
                    outs.append((s, (oid, path + (n["name"],))))
            return outs
        if k == "ArraySubscriptExpr":
            base, idx = n["inner"]
            outs = []
            for s, p in self.eval(base, st):
                for s2, i in self.eval(idx, s):
                    if isinstance(p, Ptr) and p.obj is None and p.nullflag is None:
                        # a definite NULL is indexed on this path: memory-safety obligation 'pc => false' (a path that only survived a
                        # timed-out feasibility query is proved infeasible; a feasible one is reported); the path ends here
                        self.oblige(s2, "bounds.%s" % self.func, False, n["_line"], meta={"what": "NULL pointer subscript"})
                        continue
                    if not isinstance(p, Ptr) or p.obj is None:
                        raise Undecided("subscript of non-pointer %r in %s:%s" % (p, self.func, n["_line"]))
                    off = self.arith("+", p.idx, i, None, s2, n["_line"], nocheck=True)
                    outs.append((s2, (p.obj, tuple(p.path) + (off,))))
            return outs
        if k == "UnaryOperator" and n["opcode"] == "*":
            outs = []
            for s, p in self.eval(n["inner"][0], st):
                if isinstance(p, Ptr) and p.obj is None and p.nullflag is None:
                    self.oblige(s, "bounds.%s" % self.func, False, n["_line"], meta={"what": "NULL pointer dereference"})
                    continue
                if not isinstance(p, Ptr) or p.obj is None:
                    raise Undecided("deref of %r in %s:%s" % (p, self.func, n["_line"]))
                cur = s.mem[p.obj]
                tgt = self.read_path(cur, p.path) if p.path else cur
                if isinstance(tgt, (ArrVal, list, SStr)):
                    outs.append((s, (p.obj, tuple(p.path) + (p.idx,))))
                else:
                    if not (is_conc(p.idx) and p.idx == 0):
                        raise Undecided("deref with offset into scalar")
                    outs.append((s, (p.obj, tuple(p.path))))
            return outs
        raise Undecided("lvalue kind %s (%s) at %s:%s" % (k, n.get("opcode"), self.func, n.get("_line")))

    def ex_ParenExpr(self, n, st):
        return self.eval(n["inner"][0], st)

    def ex_ConstantExpr(self, n, st):
        if "value" in n:
            return [(st, int(n["value"]))]
        return self.eval(n["inner"][0], st)

    def ex_IntegerLiteral(self, n, st):
        return [(st, int(n["value"]))]

    def ex_CharacterLiteral(self, n, st):
        return [(st, int(n["value"]))]

    def ex_FloatingLiteral(self, n, st):
        return [(st, Opaque("floatlit " + str(n.get("value"))))]

    def ex_StringLiteral(self, n, st):
        return [(st, SStr((self.strlit(n),)))]

    def ex_PredefinedExpr(self, n, st):
        return [(st, SStr((self.func,)))]

    def ex_DeclRefExpr(self, n, st):
        d = n["referencedDecl"]
        if d["kind"] == "EnumConstantDecl":
            if d["name"] not in self.tu.enums:
                raise Undecided("enum constant %s" % d["name"])
            return [(st, self.tu.enums[d["name"]])]
        if d["kind"] == "FunctionDecl":
            return [(st, ("func", d["name"]))]
        return [(s, lv) for s, lv in self.lvalue(n, st)]  # lvalue result; loaded by LValueToRValue

    def ex_MemberExpr(self, n, st):
        return self.lvalue(n, st)

    def ex_ArraySubscriptExpr(self, n, st):
        return self.lvalue(n, st)

    def ex_ImplicitCastExpr(self, n, st):
        ck = n.get("castKind")
        sub = n["inner"][0]
        line = n["_line"]
        if ck == "LValueToRValue":
            outs = []
            for s, lv in self.lvalue(sub, st):
                outs.append((s, self.load(s, lv, line)))
            return outs
        if ck == "ArrayToPointerDecay":
            core = sub
            while core["kind"] == "ParenExpr" or (core["kind"] == "UnaryOperator" and core.get("opcode") == "__extension__"):
                core = core["inner"][0]
            if core["kind"] == "StringLiteral":
                return [(st, SStr((self.strlit(core),)))]
            if core["kind"] == "PredefinedExpr":
                return [(st, SStr((self.func,)))]
            outs = []
            for s, (oid, path) in self.lvalue(sub, st):
                outs.append((s, Ptr(oid, 0, path)))
            return outs
        if ck in ("FunctionToPointerDecay", "NoOp", "BitCast", "BuiltinFnToFnPtr", "LValueBitCast"):
            r = self.eval(sub, st)
            return r
        if ck == "NullToPointer":
            return [(st, NULL)]
        if ck in ("IntegralCast", "IntegralToBoolean", "BooleanToSignedIntegral"):
            return self.int_cast(n, sub, st, implicit=True)
        if ck in ("IntegralToFloating", "FloatingCast"):
            tb = {"float": 32, "double": 64, "long double": 80}.get(self.ctype(qtype(n)).name, 0)
            return [(s, ("nan", tb) if (isinstance(v, tuple) and v and v[0] == "nan") else Opaque("float")) for s, v in self.eval(sub, st)]
        if ck == "FloatingToIntegral":
            return [(s, Opaque("float->int")) for s, v in self.eval(sub, st)]
        if ck == "PointerToBoolean":
            return [(s, self.truth(v)) for s, v in self.eval(sub, st)]
        if ck == "ToVoid":
            return self.eval(sub, st)
        if ck in ("IntegralToPointer",):
            return [(s, NULL if (is_conc(v) and v == 0) else Opaque("int->ptr")) for s, v in self.eval(sub, st)]
        if ck == "PointerToIntegral":
            return [(s, Opaque("ptr->int")) for s, v in self.eval(sub, st)]
        if ck == "FloatingToBoolean":
            raise Undecided("branch on floating value in %s:%s" % (self.func, line))
        raise Undecided("cast kind %s" % ck)

    def int_cast(self, n, sub, st, implicit):
        ct = self.ctype(qtype(n))
        line = n["_line"]
        outs = []
        for s, v in self.eval(sub, st):
            if isinstance(v, tuple) and v and v[0] in ("strchar",):
                outs.append((s, v))
                continue
            if isinstance(v, (Opaque, Ptr)) or ct.kind != "int":
                outs.append((s, v if ct.kind != "int" or isinstance(v, Opaque) else Opaque("cast")))
                continue
            if z3.is_bool(v) or isinstance(v, bool):
                v = simp(Z(v))
            sct = self.ctype(qtype(sub))
            if sct.kind == "int":
                slo, shi = sct.rng()
                lo, hi = ct.rng()
                if slo >= lo and shi <= hi:
                    outs.append((s, v))   # widening: value preserved
                    continue
            if self.mode == "wrap" or self.in_wrap:
                outs.append((s, self.wrap_st(s, v, ct)))
            else:
                self.fits(s, v, ct, line, "cast to %s" % ct.name)
                outs.append((s, v))
        return outs

    def ex_CStyleCastExpr(self, n, st):
        ck = n.get("castKind")
        sub = n["inner"][0]
        if ck in ("IntegralCast",):
            return self.int_cast(n, sub, st, implicit=False)
        if ck == "BitCast":
            # (T *)malloc(...) : give the block its element type
            t = self.ctype(qtype(n))
            outs = []
            for s, v in self.eval(sub, st):
                if isinstance(v, Ptr) and v.obj is not None and isinstance(s.mem.get(v.obj), tuple) and s.mem[v.obj][0] == "rawblock":
                    nbytes = s.mem[v.obj][1]
                    et = self.ctype(t.elem) if t.elem else None
                    if et is not None and et.kind == "int" and et.bits == 8:
                        s.mem[v.obj] = SStr((("sym", "malloc%d" % next(_ctr)),))
                    elif et is not None and et.kind == "int":
                        esz = et.bits // 8
                        ln = simp(Z(nbytes) / esz) if not is_conc(nbytes) else int(nbytes) // esz
                        s.mem[v.obj] = ArrVal(z3.Array("blk!%d" % next(_ctr), z3.IntSort(), z3.IntSort()), ln,
                                              ("i" if et.signed else "u") + str(et.bits))
                    elif et is not None and et.kind == "struct":
                        s.mem[v.obj] = self.default_value(t.elem)
                    else:
                        raise Undecided("malloc of %r" % (t.elem,))
                outs.append((s, v))
            return outs
        if ck in ("NoOp", "ToVoid", "LValueToRValue"):
            return self.eval(sub, st)
        if ck in ("IntegralToFloating", "FloatingCast"):
            return [(s, Opaque("float")) for s, v in self.eval(sub, st)]
        if ck == "FloatingToIntegral":
            return [(s, Opaque("float->int")) for s, v in self.eval(sub, st)]
        if ck == "NullToPointer":
            return [(st, NULL)]
        if ck == "IntegralToPointer":
            return [(s, NULL if (is_conc(v) and v == 0) else Opaque("int->ptr")) for s, v in self.eval(sub, st)]
        raise Undecided("C cast kind %s" % ck)

    def ex_UnaryExprOrTypeTraitExpr(self, n, st):
        if n.get("name") != "sizeof":
            raise Undecided("type trait %s" % n.get("name"))
        if "argType" in n:
            t = n["argType"].get("desugaredQualType") or n["argType"]["qualType"]
        else:
            t = qtype(n["inner"][0])
        sz = self.sizeof(t)
        if sz is None:
            return [(st, ("sizeof", strip_quals(t)))]
        return [(st, sz)]

    def ex_UnaryOperator(self, n, st):
        op = n["opcode"]
        sub = n["inner"][0]
        line = n["_line"]
        if op == "&":
            outs = []
            for s, (oid, path) in self.lvalue(sub, st):
                # &arr[i] -> pointer with index
                if path:
                    cur = s.mem[oid]
                    parent = self.read_path(cur, path[:-1]) if len(path) > 1 else cur
                    if isinstance(parent, (ArrVal, list, SStr)):
                        outs.append((s, Ptr(oid, path[-1], path[:-1])))
                        continue
                outs.append((s, Ptr(oid, 0, path)))
            return outs
        if op == "*":
            return self.lvalue(n, st)
        if op in ("++", "--"):
            outs = []
            ct = self.ctype(qtype(n))
            for s, lv in self.lvalue(sub, st):
                old = self.load(s, lv, line)
                new = self.arith("+" if op == "++" else "-", old, 1, ct, s, line)
                s = s.copy()
                self.store(s, lv, new, line)
                outs.append((s, old if n.get("isPostfix") else new))
            return outs
        outs = []
        for s, v in self.eval(sub, st):
            if op == "!":
                t = self.truth(v)
                outs.append((s, simp(z3.Not(B(t)))))
            elif op == "-":
                ct = self.ctype(qtype(n))
                outs.append((s, self.arith("-", 0, v, ct, s, line)))
            elif op == "+":
                outs.append((s, v))
            elif op == "~":
                raise Undecided("bitwise not")
            elif op == "__extension__":
                outs.append((s, v))
            else:
                raise Undecided("unary %s" % op)
        return outs

    def is_pure(self, n):
        k = n.get("kind")
        if k in ("CallExpr", "CompoundAssignOperator", "StmtExpr"):
            return False
        if k == "BinaryOperator" and n.get("opcode") in ("=",):
            return False
        if k == "UnaryOperator" and n.get("opcode") in ("++", "--"):
            return False
        return all(self.is_pure(c) for c in n.get("inner", []) or [] if c)

    def arith(self, op, a, b, ct, st, line, nocheck=False):
        if isinstance(a, Opaque) or isinstance(b, Opaque):
            return Opaque("arith")
        if isinstance(a, tuple) and a and a[0] == "sizeof" or isinstance(b, tuple) and b and b[0] == "sizeof":
            return Opaque("sizeof-arith")
        if isinstance(a, Ptr) or isinstance(b, Ptr):
            if op == "+" and isinstance(a, Ptr) and not isinstance(b, Ptr):
                return Ptr(a.obj, self.arith("+", a.idx, b, None, st, line, True), a.path, a.nullflag)
            if op == "-" and isinstance(a, Ptr) and not isinstance(b, Ptr):
                return Ptr(a.obj, self.arith("-", a.idx, b, None, st, line, True), a.path, a.nullflag)
            if isinstance(a, Ptr) and a.obj is not None and isinstance(st.mem.get(a.obj), Opaque):
                return a
            raise Undecided("pointer arithmetic %s" % op)
        if z3.is_bool(a) or isinstance(a, bool):
            a = simp(Z(a))
        if z3.is_bool(b) or isinstance(b, bool):
            b = simp(Z(b))
        if op in ("/", "%"):
            if is_conc(b) and b == 0:
                self.oblige(st, "divnz.%s" % self.func, False, line)
                return fresh_int("div0")
            signed = ct is not None and ct.signed
            if is_conc(a) and is_conc(b):
                q = abs(a) // abs(b) * (1 if (a >= 0) == (b > 0) else -1)
                r = a - q * b
                return q if op == "/" else r
            # C division truncates; all verified code divides non-negative by positive values: oblige exactly that,
            # then floor division (q*b + r, 0 <= r < b) is the C result
            if not is_conc(b):
                self.oblige(st, "divpos.%s" % self.func, Z(b) > 0, line)
            elif b < 0:
                raise Undecided("division by negative constant")
            if signed or not is_conc(a):
                self.oblige(st, "divpos.%s" % self.func, Z(a) >= 0, line)
            if is_conc(b):
                return simp(Z(a) / b) if op == "/" else simp(Z(a) % b)
            # symbolic divisor: axiomatise quotient/remainder once per (dividend, divisor) (keeps the VCs polynomial)
            key = ("div", Z(a).sexpr(), Z(b).sexpr())
            cache = st.ghost.get("divcache", {})
            if key not in cache:
                q, r = fresh_int("q"), fresh_int("r")
                st.pc.append(z3.And(Z(a) == q * Z(b) + r, r >= 0, r < Z(b), q >= 0))
                cache = dict(cache)
                cache[key] = (q, r, Z(a), Z(b))
                st.ghost["divcache"] = cache
            q, r = cache[key][0], cache[key][1]
            return q if op == "/" else r
        if op == "*" and not (is_conc(a) and is_conc(b)):
            # product hint: multiplying by a quotient/remainder of an axiomatised division implies the
            # multiplied division identity  v*a == (v*q)*b + v*r  (a sound consequence; spares the solver the guess)
            for x, y in ((a, b), (b, a)):
                if is_conc(x):
                    continue
                for (q, r_, aa, bb) in st.ghost.get("divcache", {}).values():
                    if z3.eq(Z(x), q) or z3.eq(Z(x), r_):
                        st.pc.append(Z(y) * aa == (Z(y) * q) * bb + Z(y) * r_)
        if is_conc(a) and is_conc(b):
            r = {"+": a + b, "-": a - b, "*": a * b}[op]
        else:
            r = simp({"+": Z(a) + Z(b), "-": Z(a) - Z(b), "*": Z(a) * Z(b)}[op])
        if ct is not None and ct.kind == "int" and not nocheck:
            if self.mode == "wrap" or self.in_wrap:
                return self.wrap_st(st, r, ct)
            self.fits(st, r, ct, line, "%s in %s" % (op, ct.name))
        return r

    def wrap_st(self, st, v, ct):
        """modulo-2^N semantics; the reduction is omitted when the path condition proves the value is in range.
        Proofs are cached with their unsat core (a set of path-condition conjuncts), so that other paths that
        contain the same conjuncts reuse them."""
        if is_conc(v) or isinstance(v, (Opaque, Ptr)) or ct.kind != "int":
            return self.wrap(v, ct)
        lo, hi = ct.rng()
        key = (Z(v).sexpr(), ct.bits, ct.signed)
        ids = {h.get_id(): h for h in st.pc}
        ent = self.fit_cache.get(key)
        if ent is not None:
            for core in ent["cores"]:
                if core <= ids.keys():
                    return v
            if ent["neg"] >= 3:
                return self.wrap(v, ct)
        else:
            ent = self.fit_cache[key] = {"cores": [], "neg": 0, "keep": []}
        s = z3.Solver()
        s.set("timeout", 400)
        lits = []
        for i, h in ids.items():
            l = z3.Bool("pc!%d" % i)
            s.add(z3.Implies(l, h))
            lits.append(l)
        s.add(z3.Or(Z(v) < lo, Z(v) > hi))
        if s.check(*lits) == z3.unsat:
            core = frozenset(int(str(c)[3:]) for c in s.unsat_core())
            ent["cores"].append(core)
            ent["keep"].append([ids[i] for i in core])      # keep the ASTs alive so that ids stay unique
            return v
        ent["neg"] += 1
        return self.wrap(v, ct)

    def compare(self, op, a, b):
        if isinstance(a, Ptr) or isinstance(b, Ptr):
            if isinstance(a, Ptr) and isinstance(b, Ptr):
                na, nb = self.isnull(a), self.isnull(b)
                if op == "==":
                    if nb is True:
                        return na
                    if na is True:
                        return nb
                if op == "!=":
                    if nb is True:
                        return simp(z3.Not(B(na)))
                    if na is True:
                        return simp(z3.Not(B(nb)))
            if isinstance(a, Ptr) and is_conc(b) and b == 0:
                return self.isnull(a) if op == "==" else simp(z3.Not(B(self.isnull(a))))
            raise Undecided("pointer comparison")
        if isinstance(a, Opaque) or isinstance(b, Opaque) or isinstance(a, tuple) or isinstance(b, tuple):
            # floating point / unknown character: the comparison may go either way (over-approximation)
            return fresh_bool("opaque_cmp")
        a, b = Z(a), Z(b)
        return simp({"<": a < b, "<=": a <= b, ">": a > b, ">=": a >= b, "==": a == b, "!=": a != b}[op])

    def isnull(self, p):
        if p.obj is None and p.nullflag is None:
            return True
        if p.nullflag is not None:
            return p.nullflag
        return False

    def ex_BinaryOperator(self, n, st):
        op = n["opcode"]
        l, r = n["inner"]
        line = n["_line"]
        if op == "=":
            outs = []
            for s, v in self.eval(r, st):
                for s2, lv in self.lvalue(l, s):
                    s2 = s2.copy()
                    self.store(s2, lv, v, line)
                    self.after_assign(s2, l, line)
                    outs.append((s2, v))
            return outs
        if op == ",":
            outs = []
            for s, _ in self.eval(l, st):
                outs.extend(self.eval(r, s))
            return outs
        if op in ("&&", "||"):
            outs = []
            for s, a in self.eval(l, st):
                ta = self.truth(a)
                if self.is_pure(r):
                    sa = simp(B(ta))
                    if (op == "&&" and sa is False) or (op == "||" and sa is True):
                        outs.append((s, sa))
                        continue
                    # evaluate rhs under the guard so that obligations inside it carry the guard
                    g = s.copy()
                    g.pc.append(B(ta) if op == "&&" else z3.Not(B(ta)))
                    rs = self.eval(r, g)
                    if len(rs) != 1:
                        raise Undecided("forking pure rhs")
                    tb = self.truth(rs[0][1])
                    outs.append((s, simp(z3.And(B(ta), B(tb)) if op == "&&" else z3.Or(B(ta), B(tb)))))
                else:
                    for s1, val in self.branch(s, ta):
                        if (op == "&&" and not val) or (op == "||" and val):
                            outs.append((s1, val))
                        else:
                            for s2, b in self.eval(r, s1):
                                outs.append((s2, self.truth(b)))
            return outs
        ct = self.ctype(qtype(n))
        outs = []
        for s, a in self.eval(l, st):
            for s2, b in self.eval(r, s):
                if op in ("+", "-", "*", "/", "%"):
                    if ct.kind == "float":
                        outs.append((s2, Opaque("float")))
                    else:
                        outs.append((s2, self.arith(op, a, b, ct if ct.kind == "int" else None, s2, line)))
                elif op in ("<", "<=", ">", ">=", "==", "!="):
                    outs.append((s2, self.compare(op, a, b)))
                elif op in ("|", "&", "^", "<<", ">>"):
                    if is_conc(a) and is_conc(b):
                        outs.append((s2, {"|": a | b, "&": a & b, "^": a ^ b, "<<": a << b, ">>": a >> b}[op]))
                    else:
                        outs.append((s2, Opaque("bitop")))
                else:
                    raise Undecided("binary %s" % op)
        return outs

    def root_name(self, n):
        while n.get("kind") in ("ParenExpr", "ArraySubscriptExpr", "MemberExpr", "ImplicitCastExpr", "UnaryOperator"):
            if n["kind"] == "MemberExpr":
                return n["name"]
            n = n["inner"][0]
        if n.get("kind") == "DeclRefExpr":
            return n["referencedDecl"]["name"]
        return None

    def ex_CompoundAssignOperator(self, n, st):
        op = n["opcode"][:-1]
        l, r = n["inner"]
        line = n["_line"]
        ct = self.ctype(strip_quals(n.get("computeResultType", {}).get("desugaredQualType") or n.get("computeResultType", {}).get("qualType") or qtype(n)))
        outs = []
        for s, v in self.eval(r, st):
            for s2, lv in self.lvalue(l, s):
                old = self.load(s2, lv, line)
                if ct.kind == "float":
                    new = Opaque("float")
                else:
                    saved = self.in_wrap
                    if self.root_name(l) in self.wrap_ok:
                        self.in_wrap = True
                    new = self.arith(op, old, v, ct, s2, line)
                    self.in_wrap = saved
                s2 = s2.copy()
                self.store(s2, lv, new, line)
                self.after_assign(s2, l, line)
                outs.append((s2, new))
        return outs

    # ---------------------------------------------------------------- straight-line cut points (stage lemmas)
    def after_assign(self, st, lnode, line):
        cuts = self.cuts
        if not cuts:
            return
        name = self.root_name(lnode)
        cnt = dict(st.ghost.get("asg", {}))
        cnt[name] = cnt.get(name, 0) + 1
        st.ghost["asg"] = cnt
        fn = cuts.get((name, cnt[name]))
        if fn is None:
            return
        self.cuts_hit.add((name, cnt[name]))
        fnode = self.tu.funcs[self.func]
        # locals of the current frame
        names = {}
        params = set()
        def collect(n):
            if n.get("kind") in ("VarDecl", "ParmVarDecl") and (st.frame, n["id"]) in st.env:
                names[n["name"]] = st.env[(st.frame, n["id"])]
                if n["kind"] == "ParmVarDecl":
                    params.add(n["name"])
                    pv = st.mem[names[n["name"]]]
                    if isinstance(pv, Ptr) and pv.obj is not None and not pv.path and is_conc(pv.idx) and pv.idx == 0 \
                            and not isinstance(st.mem.get(pv.obj), (Ptr, SStr, list, StructVal, ArrVal, Opaque, tuple)):
                        names["deref_" + n["name"]] = pv.obj      # scalar out-parameter: visible to stage lemmas
            for c in n.get("inner", []) or []:
                if c:
                    collect(c)
        collect(fnode)
        from types import SimpleNamespace
        L = SimpleNamespace(**{k: st.mem[oid] for k, oid in names.items() if not isinstance(st.mem[oid], (Ptr, SStr, list, StructVal, ArrVal, Opaque))})
        G1 = dict(st.ghost.get("cutghost", {}))
        for label, g in fn(L, G1, False):
            self.oblige(st, "%s.stage.%s" % (self.func, label), g, line, kind="post")
        # havoc all integer locals, keep only the stage formula
        L2 = {}
        for k, oid in names.items():
            v = st.mem[oid]
            if isinstance(v, (Ptr, SStr, list, StructVal, ArrVal, Opaque)):
                continue
            if k in params:        # parameters keep their (input-defined) values
                L2[k] = v
                continue
            nv = fresh_int(k)
            st.mem[oid] = nv
            L2[k] = nv
        G2 = dict(st.ghost.get("cutghost", {}))
        facts = fn(SimpleNamespace(**L2), G2, True)
        st.ghost["cutghost"] = G2
        st.ghost.pop("divcache", None)
        st.pc = list(st.pc[:st.ghost.get("entry_pc", 0)]) + [B(g) for _, g in facts]

    def ex_ConditionalOperator(self, n, st):
        c, a, b = n["inner"]
        outs = []
        for s, cv in self.eval(c, st):
            t = simp(B(self.truth(cv)))
            if t is True:
                outs.extend(self.eval(a, s))
            elif t is False:
                outs.extend(self.eval(b, s))
            elif self.is_pure(a) and self.is_pure(b) and self._try_ite(t, a, b, s, outs):
                pass
            else:
                for s1, val in self.branch(s, t):
                    outs.extend(self.eval(a if val else b, s1))
        return outs

    def _try_ite(self, t, a, b, s, outs):
        ra, rb = self.eval(a, s), self.eval(b, s)
        try:
            outs.append((s, self._ite(t, ra[0][1], rb[0][1])))
            return True
        except _NoMerge:
            return False

    def ex_StmtExpr(self, n, st):
        outs = []
        for s, f in self.exec_stmt(n["inner"][0], st):
            if f[0] == "next":
                outs.append((s, None))
            elif f[0] in ("abort", "exit"):
                continue
            else:
                raise Undecided("flow out of statement expression")
        return outs

    def ex_InitListExpr(self, n, st):
        return self.eval_init(n, qtype(n), st)

    # ---------------------------------------------------------------- calls
    def ex_CallExpr(self, n, st):
        callee = n["inner"][0]
        while callee["kind"] in ("ImplicitCastExpr", "ParenExpr"):
            callee = callee["inner"][0]
        if callee["kind"] != "DeclRefExpr":
            raise Undecided("indirect call in %s:%s" % (self.func, n["_line"]))
        name = callee["referencedDecl"]["name"]
        cur = [(st, [])]
        for a in n["inner"][1:]:
            nxt = []
            for s, acc in cur:
                for s2, v in self.eval(a, s):
                    nxt.append((s2, acc + [v]))
            cur = nxt
        outs = []
        for s, args in cur:
            outs.extend(self.call(name, s, args, n))
        return outs

    def call(self, name, st, args, n):
        line = n["_line"]
        if name == "__assert_fail":
            self.oblige(st, "assert.%s" % self.func, False, line, kind="assert")
            return []
        if name in ("exit", "abort"):
            return []
        h = self.contracts.get(name)
        if h is not None:
            return h(self, st, args, n)
        inline = self.config.get("inline", ())
        if name in inline and name in self.tu.funcs:
            return self.run_function(name, st, args, self.config.get("specs", {}).get(name))
        h = self.externals.get(name)
        if h is not None:
            return h(self, st, args, n)
        fn = self.tu.funcs.get(name)
        if fn is not None and any(c.get("kind") == "CompoundStmt" for c in fn.get("inner", []) or []) and not _has_loop(fn):
            # a loop-free helper defined in the same translation unit and not under contract (typically one introduced by a change):
            # its real body is executed in place, in the caller's arithmetic mode
            return self.run_function(name, st, args, {"overflow": self.mode})
        raise Undecided("call to %s at %s:%s has no contract (external not in the contract table)" % (name, self.func, line))


def _has_loop(nd):
    if nd.get("kind") in ("WhileStmt", "ForStmt", "DoStmt", "GotoStmt"):
        return True
    return any(_has_loop(c) for c in (nd.get("inner", []) or []) if c)


class _NoMerge(Exception):
    pass


import itertools as _it
_ctr = _it.count()
