import sys, importlib, os
sys.path.insert(0, os.path.dirname(os.path.dirname(os.path.abspath(__file__))))
from dvc import harness

if __name__ == "__main__":
    pid = sys.argv[1]
    try:
        mod = importlib.import_module("checks." + pid)
    except ModuleNotFoundError:
        print("no check for %s" % pid)
        sys.exit(3)
    sys.exit(harness.main(pid, mod.run))
