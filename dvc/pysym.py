"""Python front end: path-complete symbolic execution of the REAL functions under CPython.

The verified text is the code that runs: the function object of the module imported from /repo's current tree is
called with *symbolic proxy* arguments (SymInt / SymBool wrap z3 terms; arithmetic builds terms, every truth test
forks).  All feasible decision sequences are enumerated by re-execution (depth-first over branch decisions, each
prefix checked with z3), so for a given input *shape* (list lengths, None-ness, which flags are concrete) every path
is covered with all integer values symbolic.  Shapes are bounded (stated per obligation); values are not.

What of Python's semantics this assumes: integers are exact (z3 Int); `//` and `%` are used with positive divisors
(obliged); evaluation order, exceptions, containers etc. are CPython's own because CPython executes the code.
Anything that would silently concretise a symbolic value (hashing, indexing with it, formatting it, range() of it)
raises Undecided instead - it is never skipped.
"""
import z3, itertools, builtins
from .core import Undecided, EngineError, simp, Obl
from . import smt

_ctr = itertools.count()


class PathAbort(Exception):
    """raised inside the code under analysis to cut an infeasible path"""


class Ctx:
    cur = None

    def __init__(self, max_paths=4000, max_decisions=400):
        self.prefix = []          # decisions to replay
        self.decisions = []       # decisions taken on the current run (bool)
        self.conds = []           # z3 Bool of each decision as taken
        self.pc_extra = []        # assumptions added during the run (assume(), div side conditions)
        self.obls = []            # obligations raised during the run: (label, goal z3, pc snapshot)
        self.max_paths, self.max_decisions = max_paths, max_decisions
        self.base_pc = []

    def pc(self):
        return self.base_pc + self.pc_extra + self.conds

    def decide(self, cond):
        """cond: z3 Bool. returns python bool for this run, recording the decision."""
        c = simp(cond)
        if c is True or c is False:
            return c
        k = len(self.decisions)
        if k >= self.max_decisions:
            raise Undecided("more than %d symbolic decisions on one path (unbounded loop?)" % self.max_decisions)
        if k < len(self.prefix):
            val = self.prefix[k]
        else:
            # prefer True, if feasible
            val = True
            if not smt.quick_sat(self.pc() + [c], 300):
                val = False
        self.decisions.append(val)
        self.conds.append(c if val else z3.Not(c))
        return val

    def oblige(self, label, goal, meta=None):
        self.obls.append((label, goal, list(self.pc()), meta or {}))

    def assume(self, c):
        self.pc_extra.append(c)


def Zt(v):
    if isinstance(v, SymInt):
        return v.t
    if isinstance(v, z3.ExprRef):
        return v
    if isinstance(v, bool):
        return z3.IntVal(1 if v else 0)
    if isinstance(v, int):
        return z3.IntVal(v)
    if isinstance(v, SymBool):
        return z3.If(v.t, z3.IntVal(1), z3.IntVal(0))
    if hasattr(v, "__index__") and not isinstance(v, float):
        return z3.IntVal(int(v))
    raise Undecided("non-integer value %r in symbolic arithmetic" % (v,))


def is_sym(v):
    return isinstance(v, (SymInt, SymBool))


def lift(t):
    t = simp(t)
    if isinstance(t, bool):
        return t
    if isinstance(t, int):
        return t
    if z3.is_bool(t):
        return SymBool(t)
    return SymInt(t)


class SymBool:
    __slots__ = ("t",)

    def __init__(self, t):
        self.t = t

    def __bool__(self):
        return Ctx.cur.decide(self.t)

    def __and__(self, o):
        return lift(z3.And(self.t, Bt(o)))

    __rand__ = __and__

    def __or__(self, o):
        return lift(z3.Or(self.t, Bt(o)))

    __ror__ = __or__

    def __invert__(self):
        return lift(z3.Not(self.t))

    def __eq__(self, o):
        return lift(self.t == Bt(o))

    def __ne__(self, o):
        return lift(self.t != Bt(o))

    def __hash__(self):
        raise Undecided("hash of a symbolic bool")

    def __repr__(self):
        return "SymBool(%s)" % self.t


def Bt(v):
    if isinstance(v, SymBool):
        return v.t
    if isinstance(v, bool):
        return z3.BoolVal(v)
    if isinstance(v, SymInt):
        return v.t != 0
    if isinstance(v, int):
        return z3.BoolVal(v != 0)
    raise Undecided("truth value of %r" % (v,))


class SymInt:
    __slots__ = ("t",)

    def __init__(self, t):
        self.t = t

    # arithmetic
    def __add__(self, o):
        if isinstance(o, (float,)):
            raise Undecided("float arithmetic on a symbolic integer")
        if not isinstance(o, (int, SymInt, SymBool)) and not hasattr(o, "__index__"):
            return NotImplemented
        return lift(self.t + Zt(o))

    __radd__ = __add__

    def __sub__(self, o):
        if not isinstance(o, (int, SymInt, SymBool)) and not hasattr(o, "__index__"):
            return NotImplemented
        return lift(self.t - Zt(o))

    def __rsub__(self, o):
        return lift(Zt(o) - self.t)

    def __mul__(self, o):
        if isinstance(o, float):
            raise Undecided("float arithmetic on a symbolic integer")
        if not isinstance(o, (int, SymInt, SymBool)) and not hasattr(o, "__index__"):
            return NotImplemented
        return lift(self.t * Zt(o))

    __rmul__ = __mul__

    def __neg__(self):
        return lift(-self.t)

    def __pos__(self):
        return self

    def __abs__(self):
        return lift(z3.If(self.t >= 0, self.t, -self.t))

    def _divmod(self, a, b):
        c = Ctx.cur
        bz = Zt(b)
        if z3.is_int_value(bz):
            if bz.as_long() <= 0:
                raise Undecided("floor division by a non-positive constant")
            return a / bz, a % bz
        c.oblige("py.divisor_positive", bz > 0)
        # symbolic divisor: quotient/remainder axiomatised once per (dividend, divisor) - keeps the VCs polynomial
        key = (a.sexpr() if hasattr(a, "sexpr") else str(a), bz.sexpr())
        cache = c.__dict__.setdefault("divcache", {})
        if key not in cache:
            n = next(_ctr)
            q, r = z3.Int("pyq!%d" % n), z3.Int("pyr!%d" % n)
            c.assume(z3.And(a == q * bz + r, r >= 0, r < bz))
            cache[key] = (q, r)
        return cache[key]

    def __floordiv__(self, o):
        return lift(self._divmod(self.t, o)[0])

    def __rfloordiv__(self, o):
        return lift(self._divmod(Zt(o), self)[0])

    def __mod__(self, o):
        return lift(self._divmod(self.t, o)[1])

    def __rmod__(self, o):
        return lift(self._divmod(Zt(o), self)[1])

    def __truediv__(self, o):
        raise Undecided("true division (floating point) on a symbolic integer")

    __rtruediv__ = __truediv__

    # comparisons (an infinite float bound compares concretely)
    @staticmethod
    def _inf(o):
        return isinstance(o, float) and o in (float("inf"), float("-inf"))

    @staticmethod
    def _cz(o):
        # comparison operand: an integral float compares exactly like the integer it denotes
        if isinstance(o, float) and o == o and o not in (float("inf"), float("-inf")) and o.is_integer():
            return z3.IntVal(int(o))
        return Zt(o)

    def __lt__(self, o):
        if self._inf(o):
            return o > 0
        return lift(self.t < self._cz(o))

    def __le__(self, o):
        if self._inf(o):
            return o > 0
        return lift(self.t <= self._cz(o))

    def __gt__(self, o):
        if self._inf(o):
            return o < 0
        return lift(self.t > self._cz(o))

    def __ge__(self, o):
        if self._inf(o):
            return o < 0
        return lift(self.t >= self._cz(o))

    def __eq__(self, o):
        if o is None:
            return False
        try:
            return lift(self.t == Zt(o))
        except Undecided:
            return False

    def __ne__(self, o):
        if o is None:
            return True
        try:
            return lift(self.t != Zt(o))
        except Undecided:
            return True

    def __bool__(self):
        return Ctx.cur.decide(self.t != 0)

    def __hash__(self):
        # identity of the term: two syntactically different symbolic keys are distinct dict keys; callers that put
        # symbolic keys into dicts carry an explicit 'keys distinct' obligation
        return hash(("SymInt", self.t.get_id()))

    def __index__(self):
        raise Undecided("a symbolic integer is used as an index / range bound / format argument")

    def __int__(self):
        # reached only through %i / %d formatting of messages (int() itself is patched in analysed namespaces):
        # a witness value consistent with the path condition is good enough for a message
        c = Ctx.cur
        if c is None:
            raise Undecided("int() of a symbolic integer outside an exploration")
        val = 0
        for budget in (500, 5000):
            s_ = z3.Solver()
            s_.set("timeout", budget)
            s_.add(c.pc())
            if s_.check() == z3.sat:
                v = s_.model().eval(self.t, model_completion=True)
                if z3.is_int_value(v):
                    val = v.as_long()
                    break
        c.__dict__["display_concretisations"] = c.__dict__.get("display_concretisations", 0) + 1
        # ghost log: which term was rendered as which digits (lets a stand-in for open() recover the term behind a formatted name);
        # logged also when no witness was found in time (the digits are then 0): the term is what consumers rely on
        c.__dict__.setdefault("display_log", []).append((self.t, val))
        return val

    def __repr__(self):
        return "SymInt(%s)" % self.t


def sym_int(name):
    return SymInt(z3.Int(name))


def sym_bool(name):
    return SymBool(z3.Bool(name))


def p_int(x, *a):
    """replacement for int() in analysed namespaces"""
    if isinstance(x, SymInt):
        return x
    if isinstance(x, SymBool):
        return lift(Zt(x))
    return builtins.int(x, *a)


def p_min(*args, **kw):
    xs = list(args[0]) if len(args) == 1 else list(args)
    if not any(is_sym(x) for x in xs):
        return builtins.min(*args, **kw)
    r = xs[0]
    for x in xs[1:]:
        r = lift(z3.If(Zt(x) < Zt(r), Zt(x), Zt(r)))
    return r


def p_max(*args, **kw):
    xs = list(args[0]) if len(args) == 1 else list(args)
    if not any(is_sym(x) for x in xs):
        return builtins.max(*args, **kw)
    r = xs[0]
    for x in xs[1:]:
        r = lift(z3.If(Zt(x) > Zt(r), Zt(x), Zt(r)))
    return r


class Outcome:
    def __init__(self, kind, value, pc, decisions, obls, extra):
        self.kind, self.value, self.pc, self.decisions, self.obls, self.extra = kind, value, pc, decisions, obls, extra

    def __repr__(self):
        return "Outcome(%s, %r, %d decisions)" % (self.kind, self.value, len(self.decisions))


def explore(fn, make_args, base_pc=(), max_paths=4000, max_decisions=400, on_start=None):
    """Runs fn(*args, **kw) for every feasible decision sequence.  make_args() -> (args, kwargs, extra) is called
    afresh for every run (arguments may be mutated by the code).  Returns list of Outcome."""
    outcomes = []
    stack = [[]]
    n = 0
    while stack:
        prefix = stack.pop()
        n += 1
        if n > max_paths:
            raise Undecided("more than %d paths" % max_paths)
        ctx = Ctx(max_paths, max_decisions)
        ctx.prefix = prefix
        ctx.base_pc = list(base_pc)
        Ctx.cur = ctx
        args, kw, extra = make_args()
        if on_start:
            on_start(ctx)
        try:
            try:
                v = fn(*args, **kw)
                kind = "return"
            except PathAbort:
                kind, v = "abort", None
            except Undecided:
                raise
            except EngineError:
                raise
            except Exception as e:
                kind, v = "raise", e
        finally:
            Ctx.cur = None
        if kind != "abort":
            if smt.quick_sat(ctx.pc(), 500):
                outcomes.append(Outcome(kind, v, ctx.pc(), list(ctx.decisions), ctx.obls, extra))
        # schedule the alternatives of every decision taken beyond the prefix
        for k in range(len(prefix), len(ctx.decisions)):
            alt = ctx.decisions[:k] + [not ctx.decisions[k]]
            # feasibility of the alternative
            conds = ctx.base_pc + ctx.pc_extra + ctx.conds[:k] + [z3.Not(ctx.conds[k])]
            if smt.quick_sat(conds, 300):
                stack.append(alt)
    return outcomes


def obligations_of(outcomes, func, prefix=""):
    """safety obligations raised during the runs (divisor positivity etc.)"""
    out = []
    for oc in outcomes:
        for label, goal, pc, meta in oc.obls:
            out.append(Obl(prefix + label, func, 0, pc, goal, kind="safety", meta=meta))
    return out


def load_module(repo, name, patches=None):
    """imports python/digital_rf/<name>.py of the given tree as an isolated module object (pure-python modules), with
    int/min/max patched so that symbolic integers flow through"""
    import importlib.util, sys, os, types
    pkgdir = os.path.join(repo, "python", "digital_rf")
    path = os.path.join(pkgdir, name + ".py")
    if not os.path.exists(path):
        raise Undecided("module %s not found in %s" % (name, pkgdir))
    src = open(path).read()
    mod = types.ModuleType("drf_under_contract_" + name)
    mod.__file__ = path
    mod.__dict__["int"] = p_int
    mod.__dict__["min"] = p_min
    mod.__dict__["max"] = p_max
    if patches:
        mod.__dict__.update(patches)
    return mod, src, path
