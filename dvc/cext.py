"""Assumed contracts of the externals the C writer calls (libc, POSIX FS, HDF5) over the ghost state.

Every external returns a *fresh symbolic* result constrained only by its documented range, and is recorded as an
Effect on the path (name, argument snapshot, result, line).  Status-returning calls are therefore allowed to fail at
every call site, on every path; code that ignores a status simply never constrains it.  These contracts are the
trusted base; they are listed in every evidence file that uses them.
"""
import re
import z3
from .core import *

TRUSTED = {}


def ext(name, doc):
    def deco(f):
        TRUSTED[name] = doc
        f._doc = doc
        return f
    return deco


def str_of(interp, st, v):
    """Content of a C string argument as SStr (snapshot)."""
    if isinstance(v, SStr):
        return v
    if isinstance(v, Ptr):
        if v.obj is None:
            return None
        cur = st.mem.get(v.obj)
        if v.path:
            cur = interp.read_path(cur, v.path)
        if isinstance(cur, SStr):
            if is_conc(v.idx) and v.idx == 0:
                return cur
            return SStr((("sym", "substr"),))
        if isinstance(cur, Opaque):
            return SStr((("sym", "opaque:" + str(cur.tag)),))
    raise Undecided("string argument %r" % (v,))


def set_str(interp, st, dst, s):
    if not isinstance(dst, Ptr) or dst.obj is None:
        raise Undecided("string destination %r" % (dst,))
    if not (is_conc(dst.idx) and dst.idx == 0):
        raise Undecided("string write at offset")
    if dst.path:
        st.mem[dst.obj] = interp.write_path(st.mem[dst.obj], dst.path, s)
    else:
        st.mem[dst.obj] = s


def effect(interp, st, name, args, ret, n, **info):
    snap = []
    for a in args:
        if isinstance(a, Ptr) and a.obj is not None:
            cur = st.mem.get(a.obj)
            try:
                if a.path:
                    cur = interp.read_path(cur, a.path)
            except Undecided:
                cur = None
            if isinstance(cur, SStr) and is_conc(a.idx) and a.idx == 0:
                snap.append(cur)
                continue
        snap.append(a)
    e = Effect(name, snap, ret, n["_line"], interp.func, info)
    st.trace.append(e)
    return e


def parse_fmt(fmt, args):
    """printf format -> SStr parts with ('conv', spec, value) atoms."""
    parts, pos, ai = [], 0, 0
    for m in re.finditer(r"%(%|[-+ #0]*\d*(?:\.\d+)?(?:hh|h|ll|l|z|j|t|L)?[diouxXscfeEgGp])", fmt):
        parts.append(fmt[pos:m.start()])
        pos = m.end()
        if m.group(1) == "%":
            parts.append("%")
            continue
        a = args[ai] if ai < len(args) else Opaque("missing-arg")
        ai += 1
        if isinstance(a, SStr):
            parts.append(a)
        else:
            parts.append(("conv", "%" + m.group(1), a))
    parts.append(fmt[pos:])
    return SStr(parts)


def make_externals():
    X = {}

    def noop(name, ret=None):
        def h(interp, st, args, n):
            return [(st, ret)]
        X[name] = h

    for nm in ("fprintf", "printf", "fflush", "H5Eprint2", "H5Eprint1", "puts", "fputs"):
        noop(nm, 0)
    TRUSTED["fprintf/printf/fflush/H5Eprint"] = "diagnostic output only: no effect on the verified state"

    @ext("snprintf", "writes the formatted text (decimal rendering as specified by C) into the buffer; truncation not modelled")
    def snprintf(interp, st, args, n):
        dst, size, fmt = args[0], args[1], args[2]
        f = str_of(interp, st, fmt)
        if not f.is_literal():
            raise Undecided("non-literal format")
        rest = []
        for a in args[3:]:
            if isinstance(a, (Ptr, SStr)):
                rest.append(str_of(interp, st, a))
            else:
                rest.append(a)
        st = st.copy()
        set_str(interp, st, dst, parse_fmt(f.text(), rest))
        return [(st, fresh_int("snprintf"))]
    X["snprintf"] = snprintf

    @ext("strcpy/strcat/strlen/strcmp/strstr", "C string semantics on NUL-terminated buffers; buffer sizes are NOT verified")
    def strcpy(interp, st, args, n):
        st = st.copy()
        set_str(interp, st, args[0], str_of(interp, st, args[1]))
        return [(st, args[0])]
    X["strcpy"] = strcpy

    def strcat(interp, st, args, n):
        st = st.copy()
        set_str(interp, st, args[0], str_of(interp, st, args[0]) + str_of(interp, st, args[1]))
        return [(st, args[0])]
    X["strcat"] = strcat

    def strlen(interp, st, args, n):
        s = str_of(interp, st, args[0])
        if s is not None and s.is_literal():
            return [(st, len(s.text()))]
        r = fresh_int("strlen")
        st = st.copy()
        st.pc.append(r >= 0)
        st.pc.append(r < (1 << 31))
        return [(st, r)]
    X["strlen"] = strlen

    def strcmp(interp, st, args, n):
        a, b = str_of(interp, st, args[0]), str_of(interp, st, args[1])
        if a.key() == b.key():
            return [(st, 0)]
        if a.is_literal() and b.is_literal():
            return [(st, -1 if a.text() < b.text() else 1)]
        r = fresh_int("strcmp")
        eq = str_equal(a, b)
        st = st.copy()
        if eq is not None:
            st.pc.append((r == 0) == eq)
        st.ghost = dict(st.ghost)
        return [(st, r)]
    X["strcmp"] = strcmp

    def strstr(interp, st, args, n):
        hay, needle = str_of(interp, st, args[0]), str_of(interp, st, args[1])
        if not needle.is_literal():
            raise Undecided("strstr needle")
        nd = needle.text()
        # search in the leading literal part only: later parts are numeric conversions / opaque
        out = []
        for k, p in enumerate(hay.parts):
            if isinstance(p, str):
                i = p.find(nd)
                if i >= 0:
                    return [(st, SStr((p[i:],) + hay.parts[k + 1:]))]
            elif p[0] == "conv" and p[1][-1] in "diu":
                continue   # decimal digits cannot contain the needle if it has a non-digit
            else:
                break
        return [(st, SStr((("suffix_from", repr(hay.key()), nd),)))]
    X["strstr"] = strstr

    def nanf(interp, st, args, n):
        return [(st, ("nan", 32))]
    X["__builtin_nanf"] = nanf

    # floating-point library functions: the result is a floating-point value, which this engine never interprets (Opaque).
    # Contracts that need an exact integer then fail their integer-arithmetic clause instead of leaving the check undecided.
    def fmath(nm):
        def h(interp, st, args, n):
            return [(st, Opaque("floating point: %s()" % nm))]
        return h
    for nm in ("ceil", "ceill", "ceilf", "floor", "floorl", "floorf", "round", "roundl", "roundf", "trunc", "truncl", "fmod", "fmodl", "rint", "rintl",
               "nearbyint", "nearbyintl", "fabs", "fabsl", "pow", "powl", "ldexp", "ldexpl"):
        X[nm] = fmath(nm)
    for nm in ("llround", "llroundl", "lround", "lroundl", "llrint", "llrintl", "lrint", "lrintl"):
        X[nm] = fmath(nm)
    X["__builtin_nan"] = lambda interp, st, args, n: [(st, ("nan", 64))]
    TRUSTED["__builtin_nanf"] = "NAN is a quiet NaN of the float type (0x7FC00000)"

    @ext("malloc/free", "malloc returns a fresh block of the requested size (its failure branch calls exit); free releases it")
    def malloc(interp, st, args, n):
        st = st.copy()
        oid = st.new_obj(("rawblock", args[0]), "heap")
        return [(st, Ptr(oid, 0))]
    X["malloc"] = malloc

    def free(interp, st, args, n):
        return [(st, None)]
    X["free"] = free

    @ext("time", "returns the current wall-clock second (an arbitrary non-negative integer)")
    def time_(interp, st, args, n):
        r = fresh_int("time")
        st = st.copy()
        st.pc.append(r >= 0)
        st.pc.append(r < (1 << 62))
        return [(st, r)]
    X["time"] = time_

    @ext("gmtime", "proleptic Gregorian UTC breakdown of a non-negative time_t: tm_year+1900 = YEAR(t) etc. as uninterpreted functions; NULL only if the year overflows int")
    def gmtime(interp, st, args, n):
        p = args[0]
        t = interp.load(st, (p.obj, tuple(p.path)), n["_line"])
        F = lambda nm: z3.Function("gm_" + nm, z3.IntSort(), z3.IntSort())
        st = st.copy()
        tm = StructVal({
            "tm_year": F("year")(Z(t)) - 1900, "tm_mon": F("month")(Z(t)) - 1, "tm_mday": F("day")(Z(t)),
            "tm_hour": F("hour")(Z(t)), "tm_min": F("minute")(Z(t)), "tm_sec": F("second")(Z(t)),
        })
        oid = st.new_obj(tm, "tm")
        nullflag = fresh_bool("gmtime_null")
        # gmtime fails only for years that do not fit an int; never for 0 <= t < year 10000
        st.pc.append(z3.Implies(z3.And(Z(t) >= 0, Z(t) < 253402300800), z3.Not(nullflag)))
        for f, lo, hi in (("year", 1970, 9999), ("month", 1, 12), ("day", 1, 31), ("hour", 0, 23), ("minute", 0, 59), ("second", 0, 60)):
            st.pc.append(z3.Implies(z3.And(Z(t) >= 0, Z(t) < 253402300800), z3.And(F(f)(Z(t)) >= lo, F(f)(Z(t)) <= hi)))
        e = effect(interp, st, "gmtime", [t], None, n)
        return [(st, Ptr(oid, 0, (), nullflag))]
    X["gmtime"] = gmtime

    # ---- POSIX file system -------------------------------------------------
    def fs_call(name, doc, rng):
        @ext(name, doc)
        def h(interp, st, args, n):
            st = st.copy()
            r = fresh_int(name)
            if rng == "0/-1":
                st.pc.append(z3.Or(r == 0, r == -1))
            ss = []
            for a in args:
                if isinstance(a, (Ptr, SStr)):
                    try:
                        ss.append(str_of(interp, st, a))
                        continue
                    except Undecided:
                        pass
                ss.append(a)
            e = Effect(name, ss, r, n["_line"], interp.func)
            st.trace.append(e)
            return [(st, r)]
        X[name] = h

    fs_call("access", "returns 0 if the path exists/is accessible, -1 otherwise; no effect", "0/-1")
    fs_call("stat", "returns 0 and fills the buffer, or -1; no effect", "0/-1")
    fs_call("mkdir", "atomically creates the directory and returns 0, or returns -1 (errno set) with no effect", "0/-1")
    fs_call("rename", "atomically renames and returns 0, or returns -1 with no effect", "0/-1")
    fs_call("remove", "unlinks and returns 0, or returns -1 with no effect", "0/-1")

    def stat_(interp, st, args, n):
        st = st.copy()
        r = fresh_int("stat")
        st.pc.append(z3.Or(r == 0, r == -1))
        ss = [str_of(interp, st, args[0]), args[1]]
        st.trace.append(Effect("stat", ss, r, n["_line"], interp.func))
        # st_mode becomes an arbitrary value
        p = args[1]
        if isinstance(p, Ptr) and p.obj is not None:
            cur = st.mem[p.obj]
            if isinstance(cur, StructVal) and "st_mode" in cur.fields:
                st.mem[p.obj] = cur.set("st_mode", fresh_int("st_mode"))
        return [(st, r)]
    X["stat"] = stat_

    def errno_loc(interp, st, args, n):
        st = st.copy()
        oid = st.new_obj(fresh_int("errno"), "errno")
        return [(st, Ptr(oid, 0))]
    X["__errno_location"] = errno_loc
    TRUSTED["errno"] = "arbitrary value after a failing call"

    # ---- HDF5 ---------------------------------------------------------------
    H5_STATUS = ["H5Dclose", "H5Sclose", "H5Fclose", "H5Pclose", "H5Aclose", "H5Tclose", "H5Awrite", "H5Aread", "H5Dwrite",
                 "H5Dset_extent", "H5Sselect_hyperslab", "H5Pset_chunk", "H5Pset_deflate", "H5Pset_filter",
                 "H5Pset_fill_value", "H5Pset_fill_time", "H5Pset_alloc_time", "H5Tinsert", "H5Tset_size", "H5check_version", "H5open"]
    H5_ID = ["H5Fcreate", "H5Fopen", "H5Dcreate2", "H5Acreate2", "H5Aopen", "H5Screate", "H5Screate_simple",
             "H5Dget_space", "H5Pcreate", "H5Tcopy", "H5Tcreate"]
    H5_QUERY = ["H5Tget_class", "H5Tget_size", "H5Tget_order", "H5Tget_precision", "H5Tget_offset", "H5Tget_sign"]

    def h5(name, kind):
        def h(interp, st, args, n):
            st = st.copy()
            if kind == "query":
                # pure function of the datatype handle: same handle -> same answer
                a0 = args[0]
                if isinstance(a0, (Opaque, Ptr)):
                    r = fresh_int(name)
                else:
                    r = z3.Function("q_" + name, z3.IntSort(), z3.IntSort())(Z(a0))
            else:
                r = fresh_int(name)
                if kind == "id":
                    st.pc.append(r != 0)     # a valid hid_t is > 0, failure < 0
            snap = []
            for a in args:
                if isinstance(a, SStr):
                    snap.append(a)
                    continue
                if isinstance(a, Ptr):
                    if a.obj is not None:
                        cur0 = st.mem.get(a.obj)
                        try:
                            cur0 = interp.read_path(cur0, a.path) if a.path else cur0
                        except Undecided:
                            cur0 = None
                        if isinstance(cur0, SStr) and is_conc(a.idx) and a.idx == 0:
                            snap.append(cur0)
                            continue
                    # pointer to data: snapshot the pointed value (for attribute/fill/hyperslab payloads)
                    if isinstance(a, Ptr) and a.obj is not None:
                        cur = st.mem.get(a.obj)
                        try:
                            cur = interp.read_path(cur, a.path) if a.path else cur
                        except Undecided:
                            cur = None
                        snap.append(("ptr", a, cur))
                        continue
                snap.append(a)
            st.trace.append(Effect(name, snap, r, n["_line"], interp.func))
            return [(st, r)]
        X[name] = h

    for nm in H5_STATUS:
        h5(nm, "status")

    # H5Aread(attr, type, &buf): the stored value arrives in *buf (an arbitrary value of the file)
    _aread = X["H5Aread"]

    def h5aread(interp, st, args, n):
        outs = _aread(interp, st, args, n)
        res = []
        for s2, r in outs:
            p = args[2]
            if isinstance(p, Ptr) and p.obj is not None:
                v = fresh_int("stored_attr")
                interp.store(s2, (p.obj, tuple(p.path)), v, n["_line"])
                s2.trace[-1].info["value"] = v
            res.append((s2, r))
        return res
    X["H5Aread"] = h5aread
    # H5Sget_simple_extent_dims(space, dims, maxdims): the extent of that dataspace object. The ghost model tracks the extent of the
    # DATASET (through H5Dcreate2 / H5Dset_extent), not of dataspace handles, which HDF5 does not refresh when the dataset grows:
    # the values that arrive are unconstrained.
    def h5_extent_dims(interp, st, args, n):
        st = st.copy()
        r = fresh_int("H5Sget_simple_extent_dims_ret")
        for k in (1, 2):
            p = args[k] if len(args) > k else None
            if isinstance(p, Ptr) and p.obj is not None:
                for i in range(2):
                    v = fresh_int("dataspace_extent%d" % i)
                    st.assume(z3.And(v >= 0, v < (1 << 62)))
                    try:
                        interp.store(st, (p.obj, tuple(p.path) + (i,) if not is_conc(p.idx) or p.idx == 0 else tuple(p.path) + (p.idx + i,)), v, n["_line"])
                    except Exception:
                        raise Undecided("H5Sget_simple_extent_dims: cannot model the output array")
        st.trace.append(Effect("H5Sget_simple_extent_dims", [args[0]], r, n["_line"], interp.func))
        return [(st, r)]
    X["H5Sget_simple_extent_dims"] = h5_extent_dims
    for nm in H5_ID:
        h5(nm, "id")
    for nm in H5_QUERY:
        h5(nm, "query")
    TRUSTED["HDF5 status/id calls"] = ("each returns an arbitrary status (<0 failure) / identifier (<0 failure, never 0); their effect on "
                                      "the file is given by the ghost HDF5 model of the check that uses them")
    TRUSTED["H5Tget_*"] = "pure functions of the datatype handle"
    return X


def str_equal(a, b):
    """z3 Bool 'the two symbolic strings are equal' for strings of identical shape (assumes the decimal
    conversions are injective on their argument ranges); None when shapes differ."""
    if len(a.parts) != len(b.parts):
        return None
    conj = []
    for p, q in zip(a.parts, b.parts):
        if isinstance(p, str) or isinstance(q, str):
            if p != q:
                return None if not (isinstance(p, str) and isinstance(q, str)) else z3.BoolVal(False)
            continue
        if p[0] != q[0]:
            return None
        if p[0] == "conv":
            if p[1] != q[1] or isinstance(p[2], (Opaque, Ptr)) or isinstance(q[2], (Opaque, Ptr)):
                return None
            conj.append(Z(p[2]) == Z(q[2]))
        else:
            if p[:2] != q[:2]:
                return None
    return z3.And(conj) if conj else z3.BoolVal(True)
