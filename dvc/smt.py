"""SMT back ends: one query per obligation instance, 16-process pool, z3 first, cvc5 on unknown.

A query is (hyps, goal) over z3 terms; it is shipped to a worker as SMT-LIB2 text of  hyps /\\ not goal.
unsat -> proved, sat -> refuted (+ model), anything else -> unknown.  Never maps unknown to a verdict.
"""
import os, re, subprocess, tempfile, time, multiprocessing as mp
import z3

Z3_TIMEOUT_MS = int(os.environ.get("DVC_Z3_MS", "15000"))
CVC5_TIMEOUT_MS = int(os.environ.get("DVC_CVC5_MS", "30000"))
Z3_RETRY_MS = int(os.environ.get("DVC_Z3_RETRY_MS", "30000"))
CVC5 = "/usr/bin/cvc5"


def _load_scale():
    """wall-clock budgets are stretched when the machine is busier than its core count (other checks running beside this
    one), so that a verdict does not flip to 'unknown' because the solver got a fraction of a core"""
    try:
        per_core = os.getloadavg()[0] / float(os.cpu_count() or 1)
    except OSError:
        return 1.0
    return max(1.0, min(4.0, per_core))


def to_smt2(hyps, goal, extra_decls=()):
    s = z3.Solver()
    for h in hyps:
        s.add(h)
    s.add(z3.Not(goal))
    return s.to_smt2()


def _model_to_dict(m):
    out = {}
    for d in m.decls():
        if d.arity() != 0:
            try:
                out[d.name()] = str(m[d])
            except Exception:
                pass
            continue
        v = m[d]
        if z3.is_int_value(v):
            out[d.name()] = v.as_long()
        elif z3.is_true(v):
            out[d.name()] = True
        elif z3.is_false(v):
            out[d.name()] = False
        elif z3.is_string_value(v):
            out[d.name()] = v.as_string()
        else:
            out[d.name()] = str(v)
    return out


def _run_z3(smt2, timeout_ms, seed=0, tactic=None):
    timeout_ms = int(timeout_ms * _load_scale())
    t0 = time.time()
    try:
        ctx = z3.Context()
        fs = z3.parse_smt2_string(smt2, ctx=ctx)
        if tactic == "solve-eqs":
            s = z3.Then(z3.Tactic("simplify", ctx=ctx), z3.Tactic("solve-eqs", ctx=ctx), z3.Tactic("smt", ctx=ctx), ctx=ctx).solver()
        elif tactic:
            s = z3.Tactic(tactic, ctx=ctx).solver()
        else:
            s = z3.Solver(ctx=ctx)
        s.set("timeout", timeout_ms)
        if seed:
            s.set("random_seed", seed)
        s.add(fs)
        # hard stop: z3 does not always honour its own timeout (non-linear preprocessing, quantifier instantiation)
        import threading
        timer = threading.Timer(timeout_ms / 1000.0 + 2.0, ctx.interrupt)
        timer.daemon = True
        timer.start()
        try:
            r = s.check()
        finally:
            timer.cancel()
        if r == z3.unsat:
            return ("unsat", None, time.time() - t0)
        if r == z3.sat:
            return ("sat", _model_to_dict(s.model()), time.time() - t0)
        return ("unknown", s.reason_unknown(), time.time() - t0)
    except Exception as e:  # parser / solver crash is an 'unknown', never a verdict
        return ("unknown", "z3-exception: %r" % (e,), time.time() - t0)


def _run_cvc5(smt2, timeout_ms):
    timeout_ms = int(timeout_ms * _load_scale())
    t0 = time.time()
    with tempfile.NamedTemporaryFile("w", suffix=".smt2", delete=False) as f:
        txt = smt2
        if "(set-logic" not in txt:
            txt = "(set-logic ALL)\n" + txt
        if "(check-sat)" not in txt:
            txt += "\n(check-sat)\n"
        f.write(txt)
        path = f.name
    try:
        p = subprocess.run([CVC5, "--lang=smt2", "--tlimit=%d" % timeout_ms, "--nl-ext-tplanes", path],
                           capture_output=True, text=True, timeout=timeout_ms / 1000.0 + 10)
        out = p.stdout.strip().splitlines()
        r = out[0].strip() if out else "unknown"
        if r not in ("sat", "unsat"):
            r = "unknown"
        return (r, None if r != "unknown" else (p.stdout + p.stderr)[:200], time.time() - t0)
    except Exception as e:
        return ("unknown", "cvc5-exception: %r" % (e,), time.time() - t0)
    finally:
        try:
            os.unlink(path)
        except OSError:
            pass


def solve_one(job):
    """job = (key, smt2, opts) -> (key, verdict, model_or_reason, backend, seconds_by_backend)"""
    key, smt2, opts = job
    if opts.get("phase1"):
        opts = dict(opts)
        opts.pop("phase1")
        opts.update(cvc5=False, no_retry=True, z3_ms=min(opts.get("z3_ms", Z3_TIMEOUT_MS), 5000))
        if opts.get("triage"):
            if opts.pop("full", None) is not None:
                # only the quantifier-free hypotheses are used: 'unsat' still proves the obligation, a model proves nothing
                opts["qf_only"] = True
    full = opts.get("full")
    if full is not None:
        # first without the quantified hypotheses (dropping hypotheses is sound for 'proved')
        o1 = dict(opts)
        o1.pop("full")
        o1["cvc5"] = False
        o1["z3_ms"] = min(o1.get("z3_ms", Z3_TIMEOUT_MS), 10000)
        o1["no_retry"] = True
        r = solve_one((key, smt2, o1))
        if r[1] == "proved":
            return r
        o2 = dict(opts)
        o2.pop("full")
        r2 = solve_one((key, full, o2))
        for k, v in r[4].items():
            r2[4][k] = r2[4].get(k, 0.0) + v
        if r2[1] == "unknown" and r[1] == "refuted":
            # model of the quantifier-free part only: a candidate counterexample, to be confirmed by replay
            return (key, "unknown", {"candidate_model": r[2], "reason": r2[2]}, r2[3], r2[4])
        return r2
    secs = {}
    use_cvc5 = opts.get("cvc5", True)
    r, info, t = _run_z3(smt2, 2500 if opts.get("triage") else (4000 if opts.get("no_retry") else 8000), tactic="solve-eqs")
    secs["z3"] = t
    if r == "unknown":
        r, info, t = _run_z3(smt2, opts.get("z3_ms", Z3_TIMEOUT_MS))
        secs["z3"] += t
    if r == "unsat":
        return (key, "proved", None, "z3", secs)
    if r == "sat":
        if opts.get("qf_only"):
            return (key, "unknown", {"candidate_model": info, "reason": "triage budget: quantified hypotheses not used"}, "none", secs)
        return (key, "refuted", info, "z3", secs)
    reason = info
    if use_cvc5:
        r, info, t = _run_cvc5(smt2, opts.get("cvc5_ms", CVC5_TIMEOUT_MS))
        secs["cvc5"] = t
        if r == "unsat":
            return (key, "proved", None, "cvc5", secs)
        if r == "sat":
            # need a model: ask z3 again with more time and another seed
            r2, info2, t2 = _run_z3(smt2, opts.get("z3_retry_ms", Z3_RETRY_MS), seed=7)
            secs["z3"] += t2
            if r2 == "sat":
                return (key, "refuted", info2, "cvc5+z3", secs)
            return (key, "refuted", {}, "cvc5", secs)
    if opts.get("no_retry"):
        return (key, "unknown", str(reason), "none", secs)
    for tac, seed in (("qfnia", 3), (None, 11)):
        r, info, t = _run_z3(smt2, opts.get("z3_retry_ms", Z3_RETRY_MS), seed=seed, tactic=tac)
        secs["z3"] += t
        if r == "unsat":
            return (key, "proved", None, "z3-retry", secs)
        if r == "sat":
            return (key, "refuted", info, "z3-retry", secs)
    return (key, "unknown", str(reason), "none", secs)


_pool = None


def pool():
    global _pool
    if _pool is None:
        n = int(os.environ.get("DVC_PROCS", str(min(16, os.cpu_count() or 4))))
        _pool = mp.get_context("fork").Pool(n)
    return _pool


def discharge(jobs):
    """jobs: list of (key, smt2, opts). Returns dict key -> (verdict, info, backend, secs)."""
    if not jobs:
        return {}
    res = {}
    if len(jobs) <= 2 or os.environ.get("DVC_SERIAL"):
        it = map(solve_one, jobs)
    else:
        it = pool().imap_unordered(solve_one, jobs, chunksize=1)
    for key, verdict, info, backend, secs in it:
        res[key] = (verdict, info, backend, secs)
    return res


_nl_cache = {}


def _is_nonlinear(e):
    i = e.get_id()
    r = _nl_cache.get(i)
    if r is not None:
        return r
    r = False
    if z3.is_app(e):
        k = e.decl().kind()
        if k == z3.Z3_OP_MUL:
            nonconst = [c for c in e.children() if not z3.is_int_value(c)]
            if len(nonconst) > 1:
                r = True
        elif k in (z3.Z3_OP_IDIV, z3.Z3_OP_MOD, z3.Z3_OP_DIV, z3.Z3_OP_REM):
            if not z3.is_int_value(e.arg(1)):
                r = True
        if not r:
            r = any(_is_nonlinear(c) for c in e.children())
    elif z3.is_quantifier(e):
        r = True
    if len(_nl_cache) > 200000:
        _nl_cache.clear()
    _nl_cache[i] = r
    return r


def quick_sat(hyps, timeout_ms=300, full=True):
    """In-process feasibility check used for path pruning. Returns False only if definitely unsat.
    Cheap first: the linear part of the path condition decides almost every branch of the verified code."""
    timeout_ms = int(timeout_ms * _load_scale())
    lin = [h for h in hyps if not _is_nonlinear(h)]
    s = z3.Solver()
    s.set("timeout", timeout_ms)
    s.add(lin)
    r = s.check()
    if r == z3.unsat:
        return False
    if len(lin) == len(hyps) or not full:
        return True
    s2 = z3.Solver()
    s2.set("timeout", timeout_ms)
    s2.add(hyps)
    t0 = time.time()
    r2 = s2.check()
    dt = time.time() - t0
    QS["n"] += 1
    QS["t"] += dt
    if dt > 2 * timeout_ms / 1000.0 + 0.5:
        QS["slow"] += 1
        if os.environ.get("DVC_DEBUG"):
            print("slow quick_sat %.1fs (%d hyps)" % (dt, len(hyps)), flush=True)
    return r2 != z3.unsat


QS = {"n": 0, "t": 0.0, "slow": 0}
