"""Check harness: collects obligations, discharges them, applies the known-findings protocol, replays
counterexamples, writes evidence, decides the exit code.

Exit codes: 0 all obligations proved (or matched by a listed known finding); 1 violation (refuted obligation, or
structural obligation failing) not listed as known finding; 2 undecided (unknown / construct outside the subset /
missing function / obligations missing w.r.t. the ledger); 3 internal error.
"""
import json, os, sys, time, traceback, hashlib
CURRENT_PID = None
import z3
from .core import *
from . import smt

VERIF = os.path.dirname(os.path.dirname(os.path.abspath(__file__)))
# self-tests against a scratch copy (DVC_REPO=...) must not overwrite the evidence of the real tree
_SCRATCH = os.environ.get("DVC_REPO", "/repo").rstrip("/") != "/repo"
EVIDENCE_DIR = os.path.join(VERIF, "evidence") if not _SCRATCH else os.path.join("/tmp", "dvc_scratch_evidence")
LEDGER = os.path.join(VERIF, "ledger.json")
KNOWN = os.path.join(VERIF, "known_findings.json")


def load_known():
    try:
        return json.load(open(KNOWN))
    except FileNotFoundError:
        return {"findings": [], "fixed": []}


class Check:
    def __init__(self, pid, tier="quick", seed=0, level="proof"):
        global CURRENT_PID
        CURRENT_PID = pid       # replayers shared by several properties keep only the failures that concern this one
        self.pid, self.tier, self.seed, self.level = pid, tier, seed, level
        self.t0 = time.time()
        self.obls = []
        self.twins = []
        self.covers = []
        self.functions = []
        self.trusted = {}
        self.assumptions = []
        self.structural = []      # (label, ok, detail, meta) decided without a solver (effect-order / frame / tables)
        self.enumerations = []    # (label, n_cases, n_bad, sample) exhaustive finite evaluations
        self.bounded_runs = []    # (label, bound text, cases, bad)
        self.finding_preds = {}   # finding id -> fn(obl) -> z3 Bool (witness predicate over the obligation's symbols)
        self.replayers = {}       # label prefix -> fn(obl, model) -> (reproduced, text)
        self.samples = []
        self.violations = []      # (label, replay path or None, text)
        self.known_hits = []
        self.undecided = []
        self.notes = []
        self.extra = {}
        self.more_instances = {}
        self._struct_seen = {}
        self._known_struct = []
        self._replay_tried = set()

    # ----------------------------------------------------------------- registration
    def add_function(self, info):
        if info not in self.functions:
            self.functions.append(info)

    def trust(self, d):
        self.trusted.update(d)

    def add(self, obls):
        self.obls.extend(obls)

    def lemma(self, label, hyps, goal, func="spec", meta=None):
        self.obls.append(Obl(label, func, 0, hyps, goal, kind="lemma", meta=meta))

    def chain(self, label, hyps, steps, func="spec"):
        """Lemma chain: steps = [(name, formula, use_hyps: bool, [names of earlier steps used])]; each step is its own
        obligation proved from the selected hypotheses/earlier steps (ring identity + bounds per step, never one big query).
        The last step is the lemma itself."""
        proved = {}
        for name, f, use_hyps, uses in steps:
            hy = (list(hyps) if use_hyps else []) + [proved[u] for u in uses]
            self.obls.append(Obl("%s.%s" % (label, name) if name else label, func, 0, hy, f, kind="lemma"))
            proved[name] = f

    def twin(self, label, hyps, goal, func="spec"):
        """must-fail twin: an obligation with a hypothesis dropped; the solver must refute it (vacuity guard)."""
        self.twins.append(Obl(label, func, 0, hyps, goal, kind="twin"))

    def cover(self, label, hyps, func="spec"):
        """reachability: hyps must be satisfiable (guards against contradictory preconditions)."""
        self.covers.append(Obl(label, func, 0, hyps, z3.BoolVal(False), kind="cover"))

    def struct(self, label, ok, detail="", meta=None):
        meta = meta or {}
        key = (label, bool(ok), str(meta.get("site")), str(meta.get("attr")), str(meta.get("cell")), str(meta.get("when")), detail if not ok else "")
        if key in self._struct_seen:
            self._struct_seen[key] += 1
            return
        self._struct_seen[key] = 1
        self.structural.append((label, bool(ok), detail, meta))

    # ----------------------------------------------------------------- discharge
    def discharge(self, opts=None):
        opts = opts or {}
        jobs = []
        allo = [("o", i, o) for i, o in enumerate(self.obls)] + [("t", i, o) for i, o in enumerate(self.twins)] + \
               [("c", i, o) for i, o in enumerate(self.covers)]
        for kind, i, o in allo:
            try:
                txt = smt.to_smt2(o.hyps, o.goal)
                jo = dict(opts)
                if getattr(o, "qhyps", None):
                    jo["full"] = smt.to_smt2(list(o.hyps) + list(o.qhyps), o.goal)
            except Exception as e:
                raise EngineError("cannot serialise obligation %s: %r" % (o.label, e))
            if kind != "o":
                jo["cvc5"] = False
                jo["z3_ms"] = 20000
            jobs.append(((kind, i), txt, jo))
        # phase 1a: one representative instance per contract label, short budget (z3 only)
        label_of = {(kind, i): o.label for kind, i, o in allo}
        seen, reps, rest = set(), [], []
        for j in jobs:
            lab = (j[0][0], label_of[j[0]])
            (rest if lab in seen else reps).append(j)
            seen.add(lab)
        res = smt.discharge([(k, t, dict(o_, phase1=True)) for (k, t, o_) in reps])
        bad = {label_of[k] for k, v in res.items() if k[0] == "o" and v[0] == "refuted"}
        # representatives still undecided: full portfolio (cvc5, retries) for them first
        unk_reps = [j for j in reps if res[j[0]][0] == "unknown"]
        if unk_reps:
            if bad:
                unk_reps = unk_reps[:16]
            for k, v in smt.discharge(unk_reps).items():
                secs = dict(res[k][3])
                for b, t in v[3].items():
                    secs[b] = secs.get(b, 0.0) + t
                res[k] = (v[0], v[1], v[2], secs)
        bad |= {label_of[k] for k, v in res.items() if k[0] == "o" and v[0] == "refuted"}
        hard = {label_of[k] for k, v in res.items() if v[0] == "unknown"}
        # phase 1b: the other instances. Instances of labels that are already violated or undecided are not needed
        # (a label is reported once); once a violation is established the others only get a triage budget.
        rest = [j for j in rest if label_of[j[0]] not in bad and label_of[j[0]] not in hard]
        if bad or hard:
            res.update(smt.discharge([(k, t, dict(o_, phase1=True, z3_ms=2500, triage=True)) for (k, t, o_) in rest]))
        else:
            res.update(smt.discharge([(k, t, dict(o_, phase1=True)) for (k, t, o_) in rest]))
        for j in jobs:
            if j[0] not in res:
                res[j[0]] = ("skipped", "another instance of this label is already refuted or undecided", "none", {})
        n_ref = sum(1 for k, v in res.items() if k[0] == "o" and v[0] == "refuted")
        unk = [j for j in jobs if res[j[0]][0] == "unknown" and j not in unk_reps]
        if unk and not (bad or hard):
            byl = {}
            for j in unk:
                byl.setdefault(label_of[j[0]], []).append(j)
            order = []
            while any(byl.values()) and len(order) < 48:
                for lab in list(byl):
                    if byl[lab]:
                        order.append(byl[lab].pop(0))
            for k, v in smt.discharge(order).items():
                secs = dict(res[k][3])
                for b, t in v[3].items():
                    secs[b] = secs.get(b, 0.0) + t
                res[k] = (v[0], v[1], v[2], secs)
        for kind, i, o in allo:
            v, info, backend, secs = res[(kind, i)]
            o.verdict, o.info, o.backend, o.secs = v, info, backend, secs

    # ----------------------------------------------------------------- verdicts
    def requery_without(self, o, pred):
        hy = list(o.hyps) + list(getattr(o, "qhyps", [])) + [z3.Not(pred)]
        r = smt.solve_one((0, smt.to_smt2(hy, o.goal), {}))
        return r[1], r[2]

    def conclude(self):
        """Applies ledger, twins, covers, known findings; returns exit code."""
        known = load_known()
        mine = [f for f in known.get("findings", []) if f["property"] == self.pid]
        # --- vacuity guards
        for t in self.twins:
            if t.verdict != "refuted":
                self.undecided.append("must-fail twin %s was not refuted (%s): encoding may be vacuous" % (t.label, t.verdict))
        for c in self.covers:
            if c.verdict != "refuted":   # cover = 'hyps => False' must be refuted, i.e. hyps satisfiable
                self.undecided.append("cover %s not reachable (%s): contradictory precondition?" % (c.label, c.verdict))
        # --- ledger
        labels = sorted(set(self.contract_labels()))
        try:
            ledger = json.load(open(LEDGER)).get(self.pid)
        except FileNotFoundError:
            ledger = None
        if os.environ.get("DVC_UPDATE_LEDGER"):
            try:
                full = json.load(open(LEDGER))
            except FileNotFoundError:
                full = {}
            full[self.pid] = labels
            json.dump(full, open(LEDGER, "w"), indent=1, sort_keys=True)
            ledger = labels
        if ledger is not None:
            missing = sorted(set(ledger) - set(labels))
            if missing:
                self.undecided.append("obligations recorded in ledger.json were not generated: %s" % missing[:8])
        if not labels:
            raise EngineError("zero obligations generated for %s" % self.pid)
        # --- obligations
        by_label = {}
        for o in self.obls:
            by_label.setdefault(o.label, []).append(o)
        # refuted obligations first: once a violation stands, the remaining instances were only given a triage budget, and an
        # obligation left undecided by that budget must not borrow the replayed failure of another clause
        for label, lst in by_label.items():
            for o in lst:
                if o.verdict == "refuted":
                    self.handle_refuted(o, mine)
        established = bool(self.violations)
        for label, lst in by_label.items():
            for o in lst:
                if o.verdict in ("proved", "skipped", "refuted", "known-finding"):
                    continue
                if o.verdict == "unknown":
                    if not established and self.try_refute_by_replay(o):
                        continue
                    self.undecided.append("obligation %s (%s:%s) undecided: %s" % (o.label, o.func, o.line, str(o.info)[:120]))
                    continue
                self.handle_refuted(o, mine)
        seen_struct = set()
        for label, ok, detail, meta in self.structural:
            if ok:
                continue
            skey = (label, str(meta.get("site")), str(meta.get("attr")), str(meta.get("cell")), str(meta.get("when")))
            if skey in seen_struct:
                continue
            seen_struct.add(skey)
            hit = None
            for f in mine:
                if f.get("obligation") == label or (f.get("obligation", "").endswith("*") and label.startswith(f["obligation"][:-1])):
                    if self.struct_matches(f, meta, detail):
                        hit = f
                        break
            if hit:
                self.known_hits.append((hit["id"], hit["what"]))
                self._known_struct.append(skey)
            else:
                doc = {"obligation": label, "kind": "structural", "detail": detail, "meta": _jsonable(meta)}
                noinput = meta.get("no_input", True)
                text = detail
                # a clause decided on the code's structure has no solver model; the property's replayer may still find a failing input
                rep = None
                for pref, fn in self.replayers.items():
                    if label.startswith(pref):
                        rep = fn
                        break
                if rep is not None and label not in self._replay_tried:
                    self._replay_tried.add(label)
                    try:
                        reproduced, rtext, inp = rep(Obl(label, "", 0, [], None, meta=dict(meta)), {})
                    except Exception as e:
                        reproduced, rtext, inp = None, "replay harness error: %r" % (e,), None
                    doc.update({"replayed_on_real_code": reproduced, "replay_input": _jsonable(inp), "replay_output": rtext})
                    if reproduced:
                        noinput = False
                    text = "%s\n%s" % (detail, rtext)
                path = self.write_replay(label, doc)
                self.violations.append((label, path, text, noinput))
        for label, bound, cases, bad in self.bounded_runs:
            for b in bad:
                hit = None
                for f in mine:
                    if f.get("obligation") == label and self.struct_matches(f, b, ""):
                        hit = f
                if hit:
                    self.known_hits.append((hit["id"], hit["what"]))
                else:
                    path = self.write_replay(label, {"obligation": label, "kind": "bounded-search witness", "bound": bound, "witness": _jsonable(b)})
                    self.violations.append((label, path, "bounded search witness", False))
        code = 0
        if self.violations:
            code = 1
        elif self.undecided:
            code = 2
        return code

    def struct_matches(self, finding, meta, detail):
        m = finding.get("match")
        if not m:
            return True
        for k, v in m.items():
            mv = meta.get(k) if isinstance(meta, dict) else None
            if isinstance(v, list):
                if mv not in v:
                    return False
            elif str(mv) != str(v):
                return False
        return True

    def handle_refuted(self, o, mine):
        if any(v[0] == o.label for v in self.violations) and not mine:
            self.more_instances[o.label] = self.more_instances.get(o.label, 0) + 1
            return
        for f in mine:
            if f.get("obligation") != o.label and not (f.get("obligation", "").endswith("*") and o.label.startswith(f["obligation"][:-1])):
                continue
            predf = self.finding_preds.get(f["id"])
            if predf is None:
                continue
            pred = predf(o)
            if pred is None:
                continue
            # does the model satisfy the witness predicate?  re-query with the predicate negated
            v2, info2 = self.requery_without(o, pred)
            if v2 == "proved":
                self.known_hits.append((f["id"], f["what"]))
                o.verdict = "known-finding"
                o.meta["finding"] = f["id"]
                return
            if v2 == "refuted":
                o.info = info2   # a different violation: report that model
                break
            self.undecided.append("obligation %s refuted; re-query without known finding %s undecided" % (o.label, f["id"]))
            return
        rep = None
        for pref, fn in self.replayers.items():
            if o.label.startswith(pref):
                rep = fn
                break
        text, reproduced, inp = "", None, None
        if rep is not None:
            try:
                reproduced, text, inp = rep(o, o.info or {})
            except Exception as e:
                reproduced, text = None, "replay harness error: %r\n%s" % (e, traceback.format_exc()[-800:])
        doc = {"obligation": o.label, "function": o.func, "line": o.line, "kind": o.kind,
               "solver_model": _jsonable(o.info), "backend": o.backend,
               "replayed_on_real_code": reproduced, "replay_input": _jsonable(inp), "replay_output": text,
               "meta": _jsonable({k: v for k, v in o.meta.items() if k != "syms"})}
        if any(v[0] == o.label for v in self.violations):
            self.more_instances[o.label] = self.more_instances.get(o.label, 0) + 1
            return
        path = self.write_replay(o.label, doc)
        self.violations.append((o.label, path, text, not bool(reproduced)))

    def try_refute_by_replay(self, o):
        """An undecided obligation is never a violation by itself; but the property's replay / bounded directed search
        on the real code may turn it into one (a replayed failing input).  Once per label."""
        if any(v[0] == o.label for v in self.violations):
            return True
        if o.label in self._replay_tried:
            return False
        self._replay_tried.add(o.label)
        rep = None
        for pref, fn in self.replayers.items():
            if o.label.startswith(pref):
                rep = fn
                break
        if rep is None:
            return False
        cand = o.info.get("candidate_model") if isinstance(o.info, dict) else None
        try:
            reproduced, text, inp = rep(o, cand or {})
        except Exception as e:
            return False
        if not reproduced:
            return False
        doc = {"obligation": o.label, "function": o.func, "line": o.line, "kind": o.kind, "solver_verdict": "unknown (no proof within budget)",
               "candidate_model": _jsonable(cand), "replayed_on_real_code": True, "replay_input": _jsonable(inp), "replay_output": text}
        path = self.write_replay(o.label, doc)
        self.violations.append((o.label, path, text, False))
        return True

    def write_replay(self, label, doc):
        d = os.path.join(VERIF, "replays")
        os.makedirs(d, exist_ok=True)
        doc["property"] = self.pid
        h = hashlib.sha256(json.dumps(doc, sort_keys=True, default=str).encode()).hexdigest()[:10]
        safe = "".join(c if c.isalnum() or c in "._-" else "_" for c in label)[:80]
        path = os.path.join(d, "%s_%s_%s.json" % (self.pid, safe, h))
        json.dump(doc, open(path, "w"), indent=1, default=str)
        return path

    def contract_labels(self):
        out = []
        for o in self.obls:
            if o.kind in ("post", "pre", "lemma", "inv", "assert", "effect"):
                out.append(o.label)
            else:
                out.append(o.label.split(".")[0] + "." + o.func)  # safety obligations grouped per function
        out += [s[0] for s in self.structural]
        out += ["enum:" + e[0] for e in self.enumerations]
        return out

    # ----------------------------------------------------------------- evidence
    def finish(self, code):
        wall = time.time() - self.t0
        n_obl = len(self.obls) + len(self.structural)
        disc = sum(1 for o in self.obls if o.verdict in ("proved",)) + sum(1 for s in self.structural if s[1])
        # every failing structural instance that falls under a recorded finding (several paths reach the same site)
        ks = set(self._known_struct)
        known_struct_instances = sum(1 for (label, ok, detail, meta) in self.structural if not ok and
                                     (label, str(meta.get("site")), str(meta.get("attr")), str(meta.get("cell")), str(meta.get("when"))) in ks)
        known_disc = sum(1 for o in self.obls if o.verdict == "known-finding") + known_struct_instances
        by_backend, solver_s = {}, {}
        for o in self.obls + self.twins + self.covers:
            by_backend[o.backend] = by_backend.get(o.backend, 0) + 1
            for k, v in (o.secs or {}).items():
                solver_s[k] = solver_s.get(k, 0.0) + v
        labels = {}
        for o in self.obls:
            d = labels.setdefault(o.label, {"instances": 0, "proved": 0, "other": 0})
            d["instances"] += 1
            d["proved" if o.verdict == "proved" else "other"] += 1
        bounded = sorted(set(o.bounded for o in self.obls if o.bounded))
        samples = list(self.samples)
        for o in self.obls[:3] + self.obls[-2:]:
            try:
                samples.append({"obligation": o.label, "function": o.func, "line": o.line, "verdict": o.verdict,
                                "backend": o.backend, "hyps": len(o.hyps), "goal": str(o.goal)[:300]})
            except Exception:
                pass
        for s in self.structural[:3]:
            samples.append({"obligation": s[0], "structural": True, "ok": s[1], "detail": s[2][:300]})
        cov = {
            "obligations": n_obl,
            "discharged": disc,
            "discharged_as_known_finding": known_disc,
            "checker_cmd": "./check %s --tier %s" % (self.pid, self.tier),
            "trusted_base": ["%s: %s" % kv for kv in sorted(self.trusted.items())],
            "functions_under_contract": self.functions,
            "by_backend": {str(k): v for k, v in by_backend.items()},
            "solver_seconds": {k: round(v, 2) for k, v in solver_s.items()},
            "labels": labels,
            "must_fail_twins": {"total": len(self.twins), "refuted": sum(1 for t in self.twins if t.verdict == "refuted")},
            "covers": {"total": len(self.covers), "reachable": sum(1 for c in self.covers if c.verdict == "refuted")},
            "structural_obligations": len(self.structural),
            "exhaustive_enumerations": [{"label": e[0], "cases": e[1], "bad": e[2]} for e in self.enumerations],
            "bounded": bounded + ["%s: %s (%d cases)" % (b[0], b[1], b[2]) for b in self.bounded_runs],
            "known_findings_matched": sorted(set(k[0] for k in self.known_hits)),
            "undecided": self.undecided[:20],
            "samples": samples[:12] or [{"note": "no obligations"}],
            "explanation": self.extra.get("explanation", "contract obligations generated from the current /repo sources; see DESIGN.md"),
            "evaluations": max(1, n_obl + sum(e[1] for e in self.enumerations) + sum(b[2] for b in self.bounded_runs)),
            "distinct_nontrivial": max(2, len(set(self.contract_labels()))),
            "rule": "one case = one obligation instance (contract clause x path / call site), an enumerated cell, or a bounded-search input; distinct = distinct contract labels",
        }
        cov.update({k: v for k, v in self.extra.items() if k != "explanation"})
        ev = {
            "property_id": self.pid, "tier": self.tier, "seed": int(self.seed), "level": self.level,
            "coverage": cov,
            "assumptions": sorted(set(self.assumptions)),
            "wall_s": round(wall, 2),
            "violations": len(self.violations),
            "exit_code": code,
        }
        os.makedirs(EVIDENCE_DIR, exist_ok=True)
        json.dump(ev, open(os.path.join(EVIDENCE_DIR, "%s.json" % self.pid), "w"), indent=1, default=str)
        for fid, what in sorted(set(self.known_hits)):
            print("KNOWN-FINDING: property=%s %s [%s]" % (self.pid, what, fid))
        for label, path, text, noinput in self.violations:
            print("obligation failed: %s" % label)
            if text:
                print("  " + str(text).strip().replace("\n", "\n  ")[:1500])
            print("VIOLATION property=%s replay=%s%s" % (self.pid, path, " no-failing-input-found" if noinput else ""))
        for u in self.undecided[:20]:
            print("UNDECIDED: " + u)
        print("%s %s: %d obligations, %d discharged, %d known-finding, %d violations, %d undecided, %.1fs -> exit %d" % (
            self.pid, self.tier, n_obl, disc, known_disc, len(self.violations), len(self.undecided), wall, code))
        return code


def _jsonable(x):
    if x is None or isinstance(x, (int, float, str, bool)):
        return x
    if isinstance(x, dict):
        return {str(k): _jsonable(v) for k, v in x.items()}
    if isinstance(x, (list, tuple, set)):
        return [_jsonable(v) for v in x]
    return str(x)


def main(pid, runner):
    import argparse
    ap = argparse.ArgumentParser()
    ap.add_argument("--tier", default=os.environ.get("VERIF_TIER", "quick"))
    ap.add_argument("--replay", default=None)
    ap.add_argument("--update-ledger", action="store_true")
    a = ap.parse_args(sys.argv[2:])
    if a.update_ledger:
        os.environ["DVC_UPDATE_LEDGER"] = "1"
    seed = int(os.environ.get("VERIF_SEED", "0") or 0)
    tier = a.tier if a.tier in ("quick", "thorough") else "quick"
    ck = None
    try:
        if a.replay:
            return runner(None, replay=a.replay)
        ck = runner(tier, seed)
        code = ck.conclude()
        return ck.finish(code)
    except Undecided as e:
        print("UNDECIDED: %s" % e)
        _fallback_evidence(pid, tier, seed, "undecided: %s" % e, 2)
        return 2
    except Exception as e:
        traceback.print_exc()
        _fallback_evidence(pid, tier, seed, "internal error: %r" % e, 3)
        return 3


def _fallback_evidence(pid, tier, seed, why, code):
    ev = {"property_id": pid, "tier": tier, "seed": int(seed), "level": "other",
          "coverage": {"explanation": why, "obligations": 0, "discharged": 0, "evaluations": 1, "distinct_nontrivial": 2,
                       "samples": [why]},
          "assumptions": [], "wall_s": 0.0, "violations": 0, "exit_code": code}
    os.makedirs(EVIDENCE_DIR, exist_ok=True)
    json.dump(ev, open(os.path.join(EVIDENCE_DIR, "%s.json" % pid), "w"), indent=1)
