"""Shared core of the VC generator: symbolic values, states, obligations."""
import itertools, z3

_counter = itertools.count()


def fresh_int(name):
    return z3.Int("%s!%d" % (name, next(_counter)))


def fresh_bool(name):
    return z3.Bool("%s!%d" % (name, next(_counter)))


def is_conc(v):
    return isinstance(v, (int, bool)) and not isinstance(v, z3.ExprRef)


def Z(v):
    """to z3 Int term"""
    if isinstance(v, bool):
        return z3.IntVal(1 if v else 0)
    if isinstance(v, int):
        return z3.IntVal(v)
    if z3.is_bool(v):
        return z3.If(v, z3.IntVal(1), z3.IntVal(0))
    return v


def B(v):
    """to z3 Bool term (C truthiness)"""
    if isinstance(v, bool):
        return z3.BoolVal(v)
    if isinstance(v, int):
        return z3.BoolVal(v != 0)
    if z3.is_bool(v):
        return v
    return v != 0


def simp(v):
    if isinstance(v, z3.ExprRef):
        v = z3.simplify(v)
        if z3.is_int_value(v):
            return v.as_long()
        if z3.is_true(v):
            return True
        if z3.is_false(v):
            return False
    return v


class Opaque:
    """A value the engine does not model (floating point, opaque handles...). Carries a taint tag."""
    def __init__(self, tag):
        self.tag = tag

    def __repr__(self):
        return "Opaque(%s)" % self.tag


class Ptr:
    """Pointer = (object id, element index).  obj None = NULL.  'nullflag' (z3 Bool) for maybe-NULL symbolic pointers."""
    __slots__ = ("obj", "idx", "path", "nullflag")

    def __init__(self, obj, idx=0, path=(), nullflag=None):
        self.obj, self.idx, self.path, self.nullflag = obj, idx, path, nullflag

    def __repr__(self):
        return "Ptr(%r,%r,%r%s)" % (self.obj, self.idx, self.path, ",?" if self.nullflag is not None else "")


NULL = Ptr(None)


class ArrVal:
    """C array / malloc block of integers: z3 Array Int->Int plus ghost length (elements)."""
    __slots__ = ("arr", "length", "elem")

    def __init__(self, arr, length, elem="u64"):
        self.arr, self.length, self.elem = arr, length, elem

    def __repr__(self):
        return "ArrVal(len=%s)" % (self.length,)


class SStr:
    """Symbolic C string: tuple of parts; a part is a python str (literal) or a tuple atom
    ('conv', spec, value) / ('sym', name) / ('suffix_from', SStr, needle)."""
    __slots__ = ("parts",)

    def __init__(self, parts=()):
        ps = []
        for p in parts:
            if isinstance(p, SStr):
                ps.extend(p.parts)
            elif isinstance(p, str):
                if p == "":
                    continue
                if ps and isinstance(ps[-1], str):
                    ps[-1] = ps[-1] + p
                else:
                    ps.append(p)
            else:
                ps.append(p)
        self.parts = tuple(ps)

    def __add__(self, o):
        return SStr(self.parts + (o.parts if isinstance(o, SStr) else (o,)))

    def __repr__(self):
        out = []
        for p in self.parts:
            if isinstance(p, str):
                out.append(p)
            elif p[0] == "conv":
                out.append("{%s:%s}" % (p[1], p[2]))
            else:
                out.append("{%s}" % (p[1],))
        return "S'" + "".join(out) + "'"

    def key(self):
        ks = []
        for p in self.parts:
            if isinstance(p, str):
                ks.append(p)
            elif p[0] == "conv":
                ks.append(("conv", p[1], str(p[2])))
            else:
                ks.append(p[:2])
        return tuple(ks)

    def literal_prefix(self):
        return self.parts[0] if self.parts and isinstance(self.parts[0], str) else ""

    def is_literal(self):
        return all(isinstance(p, str) for p in self.parts)

    def text(self):
        return "".join(self.parts) if self.is_literal() else None


class StructVal:
    __slots__ = ("fields",)

    def __init__(self, fields):
        self.fields = dict(fields)

    def set(self, k, v):
        f = dict(self.fields)
        f[k] = v
        return StructVal(f)

    def __repr__(self):
        return "Struct(%s)" % ",".join(self.fields)


class Effect:
    """An external call recorded on the path."""
    __slots__ = ("name", "args", "ret", "line", "func", "info")

    def __init__(self, name, args, ret, line, func, info=None):
        self.name, self.args, self.ret, self.line, self.func, self.info = name, args, ret, line, func, info or {}

    def __repr__(self):
        return "%s@%s:%s" % (self.name, self.func, self.line)


class State:
    def __init__(self):
        self.mem = {}        # object id -> value
        self.env = {}        # (frame, var name) -> object id
        self.pc = []         # list of z3 Bool (quantifier-free: used for path pruning and in obligations)
        self.qpc = []        # quantified facts: only handed to the solver as obligation hypotheses
        self.trace = []      # list of Effect
        self.ghost = {}      # free-form ghost state
        self.frame = 0
        self.notes = []      # e.g. unwinding assumptions used on this path
        self._next = 0

    def copy(self):
        s = State.__new__(State)
        s.mem = dict(self.mem)
        s.env = dict(self.env)
        s.pc = list(self.pc)
        s.qpc = list(self.qpc)
        s.trace = list(self.trace)
        s.ghost = dict(self.ghost)
        s.frame = self.frame
        s.notes = list(self.notes)
        s._next = self._next
        return s

    def new_obj(self, val, hint="o"):
        self._next += 1
        oid = "%s#%d" % (hint, self._next)
        self.mem[oid] = val
        return oid

    def assume(self, c):
        c = simp(c) if isinstance(c, z3.ExprRef) else c
        if c is True:
            return
        c = B(c)
        if _has_quantifier(c):
            self.qpc.append(c)
        else:
            self.pc.append(c)


def _has_quantifier(e, _seen=None):
    if z3.is_quantifier(e):
        return True
    if not z3.is_app(e):
        return False
    seen = _seen if _seen is not None else set()
    i = e.get_id()
    if i in seen:
        return False
    seen.add(i)
    return any(_has_quantifier(c, seen) for c in e.children())


class Obl:
    """One obligation instance (one path / one call site) of a labelled contract clause."""
    __slots__ = ("label", "func", "line", "hyps", "qhyps", "goal", "kind", "meta", "verdict", "info", "backend", "secs", "bounded")

    def __init__(self, label, func, line, hyps, goal, kind="post", meta=None, bounded=None, qhyps=()):
        self.label, self.func, self.line = label, func, line
        self.hyps, self.goal, self.kind = list(hyps), goal, kind
        self.qhyps = list(qhyps)      # quantified hypotheses: tried only if the quantifier-free ones do not suffice
        self.meta = meta or {}
        self.verdict = None
        self.info = None
        self.backend = None
        self.secs = {}
        self.bounded = bounded

    def __repr__(self):
        return "Obl(%s @%s:%s %s)" % (self.label, self.func, self.line, self.verdict)


class Undecided(Exception):
    """Construct outside the supported subset / missing function: the check is undecided (exit 2), never green."""


class EngineError(Exception):
    """Internal inconsistency (exit 3)."""
