"""Publication / fault-containment / session obligations over the effect traces of the C writer (C02, C09, C10, C11).

Every file-system and HDF5 call of the writer is an Effect on the explored path, with a fresh symbolic status.  The
obligations below are evaluated at every such call site, on every path: "holds between any two file-system
operations, for all inputs" is exactly the crash-point / fault / interleaving quantifier of these properties,
under the stated atomicity assumptions (rename, mkdir, unlink atomic; HDF5 writes only through the handles it was
given; a successfully closed file keeps its bytes)."""
import z3
from dvc.core import *
from dvc import smt

FS_MUTATORS = {"mkdir", "rename", "remove", "H5Fcreate"}
FS_QUERIES = {"access", "stat", "gmtime"}
H5_MUTATING = {"H5Dcreate2", "H5Dwrite", "H5Dset_extent", "H5Acreate2", "H5Awrite", "index_append"}
H5_CLOSE = {"H5Dclose", "H5Fclose"}
STATUS_SITES = {"H5Dcreate2": "id", "H5Dwrite": "status", "H5Dset_extent": "status", "H5Acreate2": "id", "H5Awrite": "status",
                "H5Dclose": "status", "H5Fclose": "status", "H5Fcreate": "id", "mkdir": "status", "rename": "status",
                "index_append": "idx"}
KNOWN_EXTERNALS = FS_MUTATORS | FS_QUERIES | H5_MUTATING | H5_CLOSE | {
    "H5Sclose", "H5Pclose", "H5Aclose", "H5Tclose", "H5Aread", "H5Sselect_hyperslab", "H5Pset_chunk", "H5Pset_deflate", "H5Pset_filter",
    "H5Sget_simple_extent_dims", "H5Pset_fill_value", "H5Pset_fill_time", "H5Pset_alloc_time", "H5Tinsert", "H5Tset_size", "H5check_version", "H5open", "H5Fopen", "H5Aopen", "H5Screate", "H5Screate_simple",
    "H5Dget_space", "H5Pcreate", "H5Tcopy", "H5Tcreate", "H5Tget_class", "H5Tget_size", "H5Tget_order", "H5Tget_precision", "H5Tget_offset",
    "H5Tget_sign", "step_rejected", "step_io_failure", "step_ok", "loop_iterations"}


def split_path(s):
    """SStr path -> (dir SStr, base SStr) at the last '/'"""
    if not isinstance(s, SStr):
        return None, None
    parts = list(s.parts)
    for k in range(len(parts) - 1, -1, -1):
        p = parts[k]
        if isinstance(p, str) and "/" in p:
            i = p.rfind("/")
            return SStr(parts[:k] + [p[:i + 1]]), SStr([p[i + 1:]] + parts[k + 1:])
    return SStr(()), s


def is_tmp(s):
    d, b = split_path(s)
    return b is not None and b.literal_prefix().startswith("tmp.")


def final_of(s):
    d, b = split_path(s)
    if b is None or not b.literal_prefix().startswith("tmp."):
        return None
    return d + SStr([b.parts[0][4:]] + list(b.parts[1:]))


def basename_text(s):
    d, b = split_path(s)
    return b.text() if b is not None else None


_sym_cache = {}


def syms_of(e):
    i = e.get_id()
    r = _sym_cache.get(i)
    if r is not None:
        return r[0]
    out = set()
    seen = set()
    stack = [e]
    while stack:
        x = stack.pop()
        xi = x.get_id()
        if xi in seen:
            continue
        seen.add(xi)
        if z3.is_app(x):
            if x.num_args() == 0 and x.decl().kind() == z3.Z3_OP_UNINTERPRETED:
                out.add(x.decl().name())
            else:
                stack.extend(x.children())
        elif z3.is_quantifier(x):
            stack.append(x.body())
    _sym_cache[i] = (frozenset(out), e)
    return _sym_cache[i][0]


def slice_pc(pc, cond):
    """conjuncts of pc that (transitively, one step) share a symbol with cond - sufficient for the status checks,
    whose symbols are fresh per call site"""
    want = set(syms_of(B(cond)))
    return [h for h in pc if syms_of(h) & want]


def must(pc, cond):
    """pc => cond, decided in process (linear / small queries)"""
    s = z3.Solver()
    s.set("timeout", 3000)
    s.add(slice_pc(pc, cond))
    s.add(z3.Not(B(cond)))
    return s.check() == z3.unsat


def may(pc, cond):
    s = z3.Solver()
    s.set("timeout", 3000)
    s.add(slice_pc(pc, cond))
    s.add(B(cond))
    return s.check() != z3.unsat


def check_trace(state, rv, struct, origin, success=None):
    """origin: name of the proof unit (for messages). success: True if the path reports success to the caller."""
    tr = state.trace
    pc = state.pc
    names = [e.name for e in tr]
    for e in tr:
        if e.name not in KNOWN_EXTERNALS:
            raise Undecided("external %s (at %s:%s) is not in the effect inventory of the writer" % (e.name, e.func, e.line))
    for k, e in enumerate(tr):
        site = "%s@%s" % (e.name, e.func)
        meta = {"site": site, "origin": origin, "line": e.line}
        if e.name == "H5Fcreate":
            path = e.args[0]
            excl = is_conc(e.args[1]) and int(e.args[1]) == 4
            struct("fs.create_exclusive", excl, "%s: files must be created with H5F_ACC_EXCL (got flags %r)" % (site, e.args[1]), meta)
            if basename_text(path) in ("drf_properties.h5",):
                struct("fs.props_staged", False,
                       "%s creates %r directly under its final name: a kill or a concurrent reader during channel creation sees a partial properties file" % (site, path), meta)
                continue
            tmp = is_tmp(path)
            struct("fs.create_tmp", tmp, "%s: data files must be created under a 'tmp.' name; got %r" % (site, path), meta)
            if not tmp:
                continue
            fin = final_of(path)
            # preceded by access(final) == -1 with no FS mutation in between
            ok = False
            for j in range(k - 1, -1, -1):
                p = tr[j]
                if p.name in FS_MUTATORS and p.name != "mkdir":
                    break
                if p.name == "access" and isinstance(p.args[0], SStr) and p.args[0].key() == fin.key():
                    ok = must(pc, Z(p.ret) == -1)
                    break
            struct("fs.create_only_if_final_absent", ok,
                   "%s: the tmp file may be created only after access(<final name>) reported that no finalized file of that name exists" % site, meta)
        elif e.name == "rename":
            a, b = e.args[0], e.args[1]
            fin = final_of(a) if isinstance(a, SStr) else None
            struct("fs.rename_tmp_to_final", fin is not None and isinstance(b, SStr) and b.key() == fin.key(),
                   "%s: only rename(<dir>/tmp.X, <dir>/X) may publish a file; got %r -> %r" % (site, a, b), meta)
            # all handles of the file closed before publication: ... H5 mutation* < H5Dclose+ < H5Fclose < rename, nothing in between
            before = tr[:k]
            i_fc = max([i for i, p in enumerate(before) if p.name == "H5Fclose"], default=None)
            i_mut = max([i for i, p in enumerate(before) if p.name in H5_MUTATING], default=-1)
            n_dclose = len([p for i, p in enumerate(before) if p.name == "H5Dclose" and i > i_mut and (i_fc is None or i < i_fc)])
            ok = i_fc is not None and i_fc > i_mut and n_dclose >= 2
            struct("fs.close_then_rename", ok,
                   "%s: a file may be published only after its datasets (rf_data, rf_data_index) and the file were closed, with no write in between" % site, meta)
            # the file being published is the one the record names (basename of the open file)
        elif e.name == "remove":
            a = e.args[0]
            struct("fs.remove_tmp_only", isinstance(a, SStr) and is_tmp(a), "%s may only delete a 'tmp.' file; got %r" % (site, a), meta)
        elif e.name == "H5Fopen":
            ro = is_conc(e.args[1]) and int(e.args[1]) == 0
            struct("fs.open_readonly", ro, "%s: existing files may only be opened read-only (flags %r)" % (site, e.args[1]), meta)
    return names


def check_status_sites(state, rv, struct, origin, publishes, upto=None):
    """C10 io.checked: at every status-returning mutating call whose failure could make a published file unreadable or lose
    accepted samples, the failure outcome must be infeasible on paths that go on to publish / report success."""
    tr = state.trace
    pc = state.pc
    for k, e in enumerate(tr):
        if upto is not None and k >= upto:
            break
        kind = STATUS_SITES.get(e.name)
        if kind is None or e.name in ("mkdir", "rename", "H5Fcreate"):
            continue
        if e.ret is None or is_conc(e.ret):
            continue
        fail = (Z(e.ret) != 0) if kind == "idx" else (Z(e.ret) < 0)
        unchecked = may(pc, fail)
        site = "%s@%s" % (e.name, e.func)
        if unchecked:
            struct("io.checked", False,
                   "%s (line %s): the failure status of this call is not examined on a path that continues (%s)" % (site, e.line, publishes),
                   {"site": site, "origin": origin})
        else:
            struct("io.checked", True, site, {"site": site})
