"""Contract of digital_rf_create_rf_data_index and digital_rf_get_global_sample (properties C01, C05, C06, C19).

Block map of one write call, for well-formed (g[], b[], L, V):  G(p) = g[i] + (p - b[i]) for the last i with b[i] <= p.
The postconditions are taken from the properties (C06: rows strictly increasing, offsets inside the stored data;
C04: nothing outside the file window; C05: reject exactly the malformed calls), not from the code.
"""
import z3
from dvc.core import *
from .base import NS

U62 = 1 << 62


def Gmap(g, b, L, p):
    """G(p) for concrete L as an ITE chain over z3 arrays g, b"""
    r = z3.Select(g, 0) + (p - z3.Select(b, 0))
    for i in range(1, L):
        r = z3.If(p >= z3.Select(b, i), z3.Select(g, i) + (p - z3.Select(b, i)), r)
    return r


def WF(g, b, L, V):
    """property C05's list: L>=1, b[0]=0, b strictly increasing, b[L-1] < V, g strictly increasing, no overlap"""
    cs = [z3.Select(b, 0) == 0, V >= 1, z3.Select(g, 0) >= 0]
    for i in range(L):
        cs.append(z3.Select(b, i) < V)
        cs.append(z3.Select(g, i) < U62)
    for i in range(1, L):
        cs.append(z3.Select(b, i) > z3.Select(b, i - 1))
        cs.append(z3.Select(g, i) > z3.Select(g, i - 1))
        cs.append(z3.Select(b, i) - z3.Select(b, i - 1) <= z3.Select(g, i) - z3.Select(g, i - 1))
    return cs


def not_WF_clauses(g, b, L, V):
    """the individual ways a block description can be malformed (for reject.iff)"""
    cs = []
    for i in range(L):
        cs.append(z3.Select(b, i) >= V)
    for i in range(1, L):
        cs.append(z3.Select(b, i) <= z3.Select(b, i - 1))
        cs.append(z3.Select(g, i) <= z3.Select(g, i - 1))
        cs.append(z3.Select(b, i) - z3.Select(b, i - 1) > z3.Select(g, i) - z3.Select(g, i - 1))
    return cs


def T_is(T, g, b, L, V, w, E):
    """T = number of samples of this call that belong to the current file (window end E, exclusive)"""
    return z3.And(T >= 1, w + T <= V, Gmap(g, b, L, w + T - 1) < E,
                  z3.Or(w + T == V, Gmap(g, b, L, w + T) >= E))


def row_selected(g, b, i, w, T):
    """block i (i >= 1) starts inside the part [w, w+T) written to this file, after its first sample"""
    return z3.And(z3.Select(b, i) > w, z3.Select(b, i) < w + T)


# ------------------------------------------------------------------------------------------------------------
INDEX_FN = "digital_rf_create_rf_data_index"
INDEX_PARAMS = ["hdf5_data_object", "samples_written", "samples_left", "max_samples_this_file", "global_index_arr",
                "data_index_arr", "index_len", "vector_len", "next_global_sample", "rows_to_write", "samples_to_write",
                "file_exists"]


def index_setup(interp, L, tag=""):
    from . import c_obj
    tu = interp.tu
    if INDEX_FN not in tu.funcs:
        raise Undecided(INDEX_FN + " not found")
    fn = tu.funcs[INDEX_FN]
    params = [c["name"] for c in fn["inner"] if c.get("kind") == "ParmVarDecl"]
    if params != INDEX_PARAMS:
        raise Undecided("signature of %s changed: %s" % (INDEX_FN, params))
    st = State()
    wptr, wf = c_obj.make_writer(interp, st)
    a = NS(L=L, w=z3.Int("samples_written"), left=z3.Int("samples_left"), mx=z3.Int("max_samples_this_file"),
           g=z3.Array("g", z3.IntSort(), z3.IntSort()), b=z3.Array("b", z3.IntSort(), z3.IntSort()),
           V=z3.Int("vector_len"), next=z3.Int("next_global_sample"), fe=z3.Int("file_exists"),
           cursor=wf["global_index"], start=wf["global_start_sample"], chunk=wf["needs_chunking"], cont=wf["is_continuous"])
    a.E = a.next + a.left
    og = st.new_obj(ArrVal(a.g, L), "g")
    ob = st.new_obj(ArrVal(a.b, L), "b")
    orows = st.new_obj(fresh_int("rows0"), "rows_to_write")
    ostw = st.new_obj(fresh_int("stw0"), "samples_to_write")
    args = [wptr, a.w, a.left, a.mx, Ptr(og, 0), Ptr(ob, 0), L, a.V, a.next, Ptr(orows, 0), Ptr(ostw, 0), a.fe]
    a._objs = (orows, ostw, wptr.obj)
    # type domain (all runs)
    dom = [a.w >= 0, a.left >= 0, a.mx >= 0, a.V >= 0, a.next >= 0, z3.Or(a.fe == 0, a.fe == 1), a.start >= 0,
           a.start < U62, a.cursor >= 0, a.cursor < U62, a.V < U62, a.next < U62, a.left < U62, a.mx < U62, a.w < U62,
           z3.Or(a.chunk == 0, a.chunk == 1), z3.Or(a.cont == 0, a.cont == 1)]
    if isinstance(L, int):
        for i in range(L):
            dom += [z3.Select(a.g, i) >= 0, z3.Select(a.g, i) < U62, z3.Select(a.b, i) >= 0, z3.Select(a.b, i) < U62]
    for c in dom:
        st.assume(c)
    return st, args, a, fn


def success_requires(a):
    L = a.L
    return WF(a.g, a.b, L, a.V) + [
        a.w >= 0, a.w < a.V, a.next == Gmap(a.g, a.b, L, a.w),
        a.left >= 1, a.left <= a.mx,
        z3.Implies(a.w == 0, z3.Select(a.g, 0) >= a.cursor),
        a.next + a.start - (a.mx - a.left) >= 0,            # the file's first sample index is not negative
        # continuous mode admits a single block per call (checked by the caller)
        z3.Implies(z3.And(a.cont == 1, a.chunk == 0), L == 1) if True else True,
    ]


def spec_rows(a, T):
    """list of (present, sample, offset) in order, from the property: first row iff new file or chunked; then every
    block that starts strictly inside (w, w+T)"""
    first_present = z3.Or(a.fe == 0, a.chunk != 0)
    first_g = a.next + a.start - z3.If(z3.And(a.cont != 0, a.chunk == 0), a.mx - a.left, 0)
    rows = [(first_present, first_g, z3.IntVal(0))]
    for i in range(1, a.L):
        rows.append((row_selected(a.g, a.b, i, a.w, T), z3.Select(a.g, i) + a.start, z3.Select(a.b, i) - a.w))
    return rows


def verify_index_success(interp, L):
    """body of create_rf_data_index against the functional contract, for index_len = L (all values symbolic)"""
    st, args, a, fn = index_setup(interp, L)
    for c in success_requires(a):
        st.assume(c)
    n0 = len(interp.obls)
    paths = interp.run_function(INDEX_FN, st, args, {"overflow": "check", "unroll": L + 1})
    if not paths:
        raise EngineError("no path through %s for L=%d" % (INDEX_FN, L))
    orows, ostw, wobj = a._objs
    for s, rv in paths:
        interp.func = INDEX_FN
        lab = lambda x: "%s.%s" % (INDEX_FN, x)
        meta = {"syms": {"L": L}, "L": L}
        rows_out = s.mem[orows]
        T = s.mem[ostw]
        # well-formed input is never rejected
        interp.oblige(s, lab("accepts_wellformed"), Z(rows_out) != -1, fn["_line"], kind="post", meta=meta)
        s2 = s.copy()
        s2.assume(Z(rows_out) != -1)
        interp.oblige(s2, lab("samples_to_write"), T_is(Z(T), a.g, a.b, L, a.V, a.w, a.E), fn["_line"], kind="post", meta=meta)
        # T <= samples_left: nothing is written past the file window
        interp.oblige(s2, lab("within_window"), z3.And(Z(T) >= 1, Z(T) <= a.left), fn["_line"], kind="post", meta=meta)
        rows = spec_rows(a, Z(T))
        count = z3.Sum([z3.If(p, 1, 0) for p, _, _ in rows]) if len(rows) > 1 else z3.If(rows[0][0], 1, 0)
        interp.oblige(s2, lab("row_count"), Z(rows_out) == count, fn["_line"], kind="post", meta=meta)
        if isinstance(rv, Ptr) and rv.obj is not None:
            arr = s.mem[rv.obj]
            if not isinstance(arr, ArrVal):
                raise Undecided("returned block is not an integer array")
            pos = z3.IntVal(0)
            conj = []
            for p, gg, off in rows:
                conj.append(z3.Implies(p, z3.And(z3.Select(arr.arr, 2 * pos) == gg, z3.Select(arr.arr, 2 * pos + 1) == off)))
                pos = pos + z3.If(p, 1, 0)
            nullflag = interp.isnull(rv)
            s3 = s2.copy()
            s3.assume(z3.Not(B(nullflag)))
            interp.oblige(s3, lab("rows"), z3.And(conj), fn["_line"], kind="post", meta=meta)
            interp.oblige(s3, lab("rows_alloc"), Z(arr.length) == 2 * Z(rows_out), fn["_line"], kind="post", meta=meta)
        else:
            # NULL returned: only legitimate with zero rows
            interp.oblige(s2, lab("null_only_if_no_rows"), Z(rows_out) == 0, fn["_line"], kind="post", meta=meta)
        # frame
        same = s.mem[wobj] is st.mem[wobj]
        if not same:
            interp.oblige(s, lab("frame_writer"), False, fn["_line"], kind="post", meta=meta)
    for o in interp.obls[n0:]:
        o.meta.setdefault("L", L)
        o.meta["a"] = a
    return a


def verify_index_reject(interp, L):
    """with nothing written yet by this call (samples_written == 0) the function rejects exactly the malformed calls
    of property C05, and accepts exactly the well-formed ones"""
    st, args, a, fn = index_setup(interp, L)
    st.assume(z3.Select(a.b, 0) == 0)        # checked by the caller (digital_rf_write_samples_to_file entry checks)
    n0 = len(interp.obls)
    paths = interp.run_function(INDEX_FN, st, args, {"overflow": "wrap", "unroll": L + 1})
    orows, ostw, wobj = a._objs
    wf0 = z3.And(WF(a.g, a.b, L, a.V) + [z3.Implies(a.w == 0, z3.Select(a.g, 0) >= a.cursor)])
    out = []
    for s, rv in paths:
        interp.func = INDEX_FN
        rows_out = s.mem[orows]
        rejected = z3.And(Z(rows_out) == -1, B(interp.isnull(rv)) if isinstance(rv, Ptr) else False)
        o1 = Obl("%s.reject_iff_malformed" % INDEX_FN, INDEX_FN, fn["_line"], s.pc, rejected == z3.Not(wf0), kind="post",
                 meta={"L": L, "a": a})
        out.append(o1)
        if s.mem[wobj] is not st.mem[wobj] or s.trace:
            out.append(Obl("%s.reject_frame" % INDEX_FN, INDEX_FN, fn["_line"], s.pc, z3.Not(rejected), kind="post", meta={"L": L}))
    # keep only the contract obligations of this run (safety of garbage inputs is not claimed)
    del interp.obls[n0:]
    interp.obls.extend(out)
    return a


def verify_global_sample(interp, L):
    """digital_rf_get_global_sample(w, g, b, L) == G(w) for index_len = L"""
    name = "digital_rf_get_global_sample"
    tu = interp.tu
    if name not in tu.funcs:
        raise Undecided(name + " not found")
    fn = tu.funcs[name]
    params = [c["name"] for c in fn["inner"] if c.get("kind") == "ParmVarDecl"]
    if params != ["samples_written", "global_index_arr", "data_index_arr", "index_len"]:
        raise Undecided("signature of %s changed" % name)
    st = State()
    w, V = z3.Int("samples_written"), z3.Int("vector_len")
    g = z3.Array("g", z3.IntSort(), z3.IntSort())
    b = z3.Array("b", z3.IntSort(), z3.IntSort())
    og = st.new_obj(ArrVal(g, L), "g")
    ob = st.new_obj(ArrVal(b, L), "b")
    for c in WF(g, b, L, V) + [w >= 0, w < V, V < U62]:
        st.assume(c)
    paths = interp.run_function(name, st, [w, Ptr(og, 0), Ptr(ob, 0), L], {"overflow": "check", "unroll": L + 1})
    for s, rv in paths:
        interp.func = name
        interp.oblige(s, "%s.returns_block_map" % name, Z(rv) == Gmap(g, b, L, w), fn["_line"], kind="post", meta={"L": L})
        if s.trace:
            interp.oblige(s, "%s.pure" % name, False, fn["_line"], kind="post", meta={"L": L})
    return len(paths)


def verify_write_index(interp, R, existing):
    """digital_rf_write_rf_data_index for block_index_len = R: creates (existing=False) or extends (existing=True) the
    rf_data_index dataset; in the latter case every row offset is rebased by the number of samples already in the file."""
    from . import c_obj
    name = "digital_rf_write_rf_data_index"
    tu = interp.tu
    if name not in tu.funcs:
        raise Undecided(name + " not found")
    fn = tu.funcs[name]
    params = [c["name"] for c in fn["inner"] if c.get("kind") == "ParmVarDecl"]
    if params != ["hdf5_data_object", "rf_data_index_arr", "block_index_len"]:
        raise Undecided("signature of %s changed" % name)
    st = State()
    wptr, wf = c_obj.make_writer(interp, st)
    arr0 = z3.Array("rows", z3.IntSort(), z3.IntSort())
    oarr = st.new_obj(ArrVal(arr0, 2 * R), "rows")
    di, nia = wf["dataset_index"], wf["next_index_avail"]
    st.assume(wf["index_dataset"] != 0 if existing else wf["index_dataset"] == 0)
    st.assume(z3.And(di >= 0, di < U62, nia >= 0, nia < (1 << 30)))
    for j in range(R):
        st.assume(z3.And(z3.Select(arr0, 2 * j) >= 0, z3.Select(arr0, 2 * j) < U62, z3.Select(arr0, 2 * j + 1) >= 0, z3.Select(arr0, 2 * j + 1) < U62))
    paths = interp.run_function(name, st, [wptr, Ptr(oarr, 0), R], {"overflow": "check", "unroll": R + 1})
    nok = 0
    for s, rv in paths:
        interp.func = name
        meta = {"R": R, "existing": existing}
        wfin = s.mem[wptr.obj].fields
        arr1 = s.mem[oarr].arr
        lab = lambda x: "%s.%s" % (name, x)
        changed = [f for f in wf if f not in ("index_dataset", "next_index_avail") and not _samef(wfin[f], wf[f])]
        if changed:
            interp.oblige(s, lab("frame"), False, fn["_line"], kind="post", meta=dict(meta, changed=changed))
        dw = [e for e in s.trace if e.name == "H5Dwrite"]
        s_ok = s.copy()
        s_ok.assume(Z(rv) == 0)
        if not interp.feasible(s_ok):
            continue
        nok += 1
        if existing:
            reb = z3.And([z3.And(z3.Select(arr1, 2 * j) == z3.Select(arr0, 2 * j), z3.Select(arr1, 2 * j + 1) == z3.Select(arr0, 2 * j + 1) + di)
                          for j in range(R)])
            interp.oblige(s_ok, lab("rebased_by_dataset_index"), reb, fn["_line"], kind="post", meta=meta)
            interp.oblige(s_ok, lab("next_index_avail"), Z(wfin["next_index_avail"]) == nia + R, fn["_line"], kind="post", meta=meta)
            ext = [e for e in s.trace if e.name == "H5Dset_extent"]
            hs = [e for e in s.trace if e.name == "H5Sselect_hyperslab"]
            ok = len(ext) == 1 and len(hs) == 1 and len(dw) == 1
            if ok:
                dims, off, size = ext[0].args[1][2], hs[0].args[2][2], hs[0].args[4][2]
                interp.oblige(s_ok, lab("appended_at_end"),
                              z3.And(Z(dims[0]) == nia + R, Z(dims[1]) == 2, Z(off[0]) == nia, Z(off[1]) == 0, Z(size[0]) == R, Z(size[1]) == 2,
                                     Z(ext[0].args[0]) == wf["index_dataset"], Z(dw[0].args[0]) == wf["index_dataset"]),
                              fn["_line"], kind="post", meta=meta)
            else:
                interp.oblige(s_ok, lab("appended_at_end"), False, fn["_line"], kind="post", meta=meta)
        else:
            same = z3.And([z3.Select(arr1, j) == z3.Select(arr0, j) for j in range(2 * R)])
            interp.oblige(s_ok, lab("rows_unchanged_for_new_dataset"), same, fn["_line"], kind="post", meta=meta)
            interp.oblige(s_ok, lab("next_index_avail"), Z(wfin["next_index_avail"]) == R, fn["_line"], kind="post", meta=meta)
            dc = [e for e in s.trace if e.name == "H5Dcreate2"]
            sc = [e for e in s.trace if e.name == "H5Screate_simple"]
            ok = len(dc) == 1 and len(sc) >= 1 and len(dw) == 1 and isinstance(dc[0].args[1], SStr) and dc[0].args[1].text() == "rf_data_index"
            if ok:
                dims = sc[0].args[1][2]
                interp.oblige(s_ok, lab("created_with_rows"), z3.And(Z(dims[0]) == R, Z(dims[1]) == 2, Z(dc[0].args[0]) == wf["hdf5_file"],
                                                                     Z(wfin["index_dataset"]) == Z(dc[0].ret), Z(dw[0].args[0]) == Z(dc[0].ret)),
                              fn["_line"], kind="post", meta=meta)
            else:
                interp.oblige(s_ok, lab("created_with_rows"), False, fn["_line"], kind="post", meta=meta)
        # the rows written are the (rebased) array itself
        if dw:
            src = dw[0].args[5]
            okp = isinstance(src, tuple) and isinstance(src[1], Ptr) and src[1].obj == oarr and is_conc(src[1].idx) and src[1].idx == 0
            if not okp:
                interp.oblige(s_ok, lab("writes_the_rows"), False, fn["_line"], kind="post", meta=meta)
    if nok == 0:
        raise EngineError("no successful path through %s" % name)


def _samef(x, y):
    if x is y:
        return True
    if isinstance(x, z3.ExprRef) and isinstance(y, z3.ExprRef):
        return z3.eq(x, y)
    if is_conc(x) and is_conc(y):
        return x == y
    return False


# ------------------------------------------------------------------------------------------------------------
# Unbounded (loop-invariant) proof of the validation half: for every index_len, create_rf_data_index rejects exactly
# the malformed block descriptions.  The invariant only talks about the checks ("all blocks before i passed, prev_* is
# block i-1"); the sentinel/row logic of the same loop is havoced (it cannot influence a rejection).
def _ok(g, b, V, j):
    return z3.And(z3.Select(b, j) < V,
                  z3.Implies(j > 0, z3.And(z3.Select(b, j - 1) < z3.Select(b, j), z3.Select(g, j - 1) < z3.Select(g, j),
                                           z3.Select(b, j) - z3.Select(b, j - 1) <= z3.Select(g, j) - z3.Select(g, j - 1))))


def verify_index_reject_unbounded(interp):
    from .c_blocks import local, set_local
    Ls = z3.Int("index_len")
    st, args, a, fn = index_setup(interp, Ls)
    j = z3.Int("j!wf")
    st.assume(z3.And(Ls >= 0, Ls < (1 << 30), z3.Implies(Ls >= 1, z3.Select(a.b, 0) == 0)))
    # type domain of the array elements
    st.assume(z3.ForAll([j], z3.Implies(z3.And(j >= 0, j < Ls), z3.And(z3.Select(a.g, j) >= 0, z3.Select(a.g, j) < U62,
                                                                       z3.Select(a.b, j) >= 0, z3.Select(a.b, j) < U62))))
    orows, ostw, wobj = a._objs
    rows0 = st.mem[orows]

    def inv(it, s):
        i = local(it, s, fn, "i")
        pi, ps = local(it, s, fn, "prev_index"), local(it, s, fn, "prev_sample")
        return [("range", z3.And(Z(i) >= 0, Z(i) <= Ls)),
                ("prev", z3.Implies(Z(i) > 0, z3.And(Z(pi) == z3.Select(a.b, Z(i) - 1), Z(ps) == z3.Select(a.g, Z(i) - 1)))),
                ("checked_prefix", z3.ForAll([j], z3.Implies(z3.And(j >= 0, j < Z(i)), _ok(a.g, a.b, a.V, j)))),
                ("not_yet_rejected", Z(s.mem[orows]) == Z(rows0))]

    def havoc(it, s):
        for nm in ("i", "this_index", "this_sample", "prev_index", "prev_sample", "bottom_index", "top_index"):
            set_local(it, s, fn, nm, fresh_int(nm))
        set_local(it, s, fn, "row_count", fresh_int("row_count"))

    def inv2(it, s):
        return []

    def havoc2(it, s):
        for nm in ("i", "this_index", "this_sample", "prev_index", "prev_sample"):
            set_local(it, s, fn, nm, fresh_int(nm))
        set_local(it, s, fn, "rows_written", fresh_int("rows_written"))
        for oid, v in list(s.mem.items()):
            if isinstance(v, ArrVal) and oid.startswith("heap"):
                s.mem[oid] = ArrVal(z3.Array("ret_havoc!%d" % len(s.pc), z3.IntSort(), z3.IntSort()), v.length, v.elem)
    n0 = len(interp.obls)
    paths = interp.run_function(INDEX_FN, st, args, {"overflow": "wrap", "loops": {1: {"invariant": inv, "havoc": havoc},
                                                                                   2: {"invariant": inv2, "havoc": havoc2}}})
    wf_all = z3.And(Ls >= 1, z3.ForAll([j], z3.Implies(z3.And(j >= 0, j < Ls), _ok(a.g, a.b, a.V, j))),
                    z3.Implies(a.w == 0, z3.Select(a.g, 0) >= a.cursor))
    out = []
    for o in interp.obls[n0:]:
        if o.kind == "inv":
            o.label = o.label.replace(INDEX_FN + ".loop1", INDEX_FN + ".reject_unbounded.loop")
            if ".loop2." not in o.label:
                out.append(o)
    for s, rv in paths:
        interp.func = INDEX_FN
        rows_out = s.mem[orows]
        rejected = z3.And(Z(rows_out) == -1, B(interp.isnull(rv)) if isinstance(rv, Ptr) else False)
        out.append(Obl("%s.reject_unbounded.iff_malformed" % INDEX_FN, INDEX_FN, fn["_line"], s.pc, rejected == z3.Not(wf_all), kind="post",
                       meta={"L": "symbolic"}, qhyps=s.qpc))
    del interp.obls[n0:]
    interp.obls.extend(out)
    return a


def verify_global_sample_unbounded(interp):
    """digital_rf_get_global_sample for every index_len: the result is g[j] + (w - b[j]) for the last block j that
    starts at or before w (loop invariant: ret is the value for block i-1, and b[i-1] <= w)."""
    from .c_blocks import local, set_local
    name = "digital_rf_get_global_sample"
    tu = interp.tu
    if name not in tu.funcs:
        raise Undecided(name + " not found")
    fn = tu.funcs[name]
    st = State()
    w, V, L = z3.Int("samples_written"), z3.Int("vector_len"), z3.Int("index_len")
    g = z3.Array("g", z3.IntSort(), z3.IntSort())
    b = z3.Array("b", z3.IntSort(), z3.IntSort())
    og = st.new_obj(ArrVal(g, L), "g")
    ob = st.new_obj(ArrVal(b, L), "b")
    j = z3.Int("j!gs")
    st.assume(z3.And(L >= 1, L < (1 << 30), w >= 0, w < U62, z3.Select(b, 0) == 0))
    st.assume(z3.ForAll([j], z3.Implies(z3.And(j >= 0, j < L), z3.And(z3.Select(g, j) >= 0, z3.Select(g, j) < U62, z3.Select(b, j) >= 0, z3.Select(b, j) < U62))))

    def inv(it, s):
        i = local(it, s, fn, "i")
        r = local(it, s, fn, "ret_value")
        return [("range", z3.And(Z(i) >= 1, Z(i) <= L)),
                ("value_of_previous_block", z3.And(Z(r) == z3.Select(g, Z(i) - 1) + (w - z3.Select(b, Z(i) - 1)), z3.Select(b, Z(i) - 1) <= w))]

    def havoc(it, s):
        set_local(it, s, fn, "i", fresh_int("i"))
        set_local(it, s, fn, "ret_value", fresh_int("ret_value"))
    n0 = len(interp.obls)
    paths = interp.run_function(name, st, [w, Ptr(og, 0), Ptr(ob, 0), L], {"overflow": "wrap", "loops": {1: {"invariant": inv, "havoc": havoc}}})
    out = [o for o in interp.obls[n0:] if o.kind == "inv"]
    for o in out:
        o.label = o.label.replace(name + ".loop1", name + ".unbounded.loop")
    for s, rv in paths:
        # frame + result: exists the block index jj = i-1 (read from the final value of the loop variable)
        d = None
        def find(n):
            nonlocal d
            if n.get("kind") == "VarDecl" and n.get("name") == "i":
                d = n
            for c in n.get("inner", []) or []:
                if c:
                    find(c)
        find(fn)
        # the frame of the callee is frame_before+1
        key = [k for k in s.env if k[1] == d["id"]]
        iv = s.mem[s.env[key[-1]]]
        jj = Z(iv) - 1
        goal = z3.And(jj >= 0, jj < L, z3.Select(b, jj) <= w, z3.Or(jj == L - 1, w < z3.Select(b, jj + 1)),
                      Z(rv) == z3.Select(g, jj) + (w - z3.Select(b, jj)))
        out.append(Obl("%s.unbounded.returns_block_map" % name, name, fn["_line"], s.pc, goal, kind="post", qhyps=s.qpc))
        if s.trace:
            out.append(Obl("%s.unbounded.pure" % name, name, fn["_line"], s.pc, z3.BoolVal(False), kind="post"))
    del interp.obls[n0:]
    interp.obls.extend(out)


# ------------------------------------------------------------------------------------------------------------
# Unbounded proof of samples_to_write (the part of the call that belongs to the current file), for every index_len.

def _t_assign_line(interp, fn):
    """source line of '*samples_to_write = top_index - bottom_index' (end of the first pass and of the T computation)"""
    src = open(interp.tu.path).read().splitlines() if hasattr(interp.tu, "path") else []
    first = fn.get("_line", 0)
    for k in range(first, min(len(src), first + 400)):
        t = src[k].replace(" ", "").replace("\t", "")
        if t.startswith("*samples_to_write=top_index-bottom_index"):
            return k + 1
    raise Undecided("assignment '*samples_to_write = top_index - bottom_index' not found in %s" % INDEX_FN)


def verify_index_T_unbounded(interp):
    from .c_blocks import local, set_local
    Ls = z3.Int("index_len")
    st, args, a, fn = index_setup(interp, Ls)
    g, b, V, w, E, nxt = a.g, a.b, a.V, a.w, a.E, a.next
    jw = z3.Int("ghost_block_of_w")
    x, y = z3.Ints("x!wf y!wf")
    inblk = lambda k, t: z3.And(k >= 0, k < Ls, z3.Select(b, k) <= t, z3.Or(k == Ls - 1, t < z3.Select(b, k + 1)), t < V)
    val = lambda k, t: z3.Select(g, k) + t - z3.Select(b, k)
    hy = [Ls >= 1, Ls < (1 << 30), z3.Select(b, 0) == 0, w >= 0, w < V, a.left >= 1, a.left <= a.mx,
          # WF in transitive form (follows from the adjacent form by induction on the index distance: lemma L-wf-transitive)
          z3.ForAll([x, y], z3.Implies(z3.And(0 <= x, x < y, y < Ls),
                                       z3.And(z3.Select(b, x) < z3.Select(b, y), z3.Select(g, x) < z3.Select(g, y),
                                              z3.Select(b, y) - z3.Select(b, x) <= z3.Select(g, y) - z3.Select(g, x)))),
          z3.ForAll([x], z3.Implies(z3.And(0 <= x, x < Ls), z3.And(z3.Select(b, x) >= 0, z3.Select(b, x) < V, z3.Select(g, x) >= 0, z3.Select(g, x) < U62))),
          inblk(jw, w), nxt == val(jw, w),
          z3.Implies(w == 0, z3.Select(g, 0) >= a.cursor),
          nxt + a.start - (a.mx - a.left) >= 0]
    for c in hy:
        st.assume(c)
    orows, ostw, wobj = a._objs
    rows0 = st.mem[orows]
    k1, k2 = z3.Ints("k1!top k2!top")

    def ptop_with(t, c1, c2):
        return z3.And(w < t, t <= V, inblk(c1, t - 1), val(c1, t - 1) < E, z3.Or(t == V, z3.And(inblk(c2, t), val(c2, t) >= E)))

    def ptop(t, s, i):
        """P(top): top-1 is the last position below the window end.  The block witnesses are ghost variables: when the
        invariant is assumed they are the (havoced) ghost symbols, when it is proved the candidates are the old ghosts and
        the blocks adjacent to the current one."""
        gk1, gk2 = s.ghost.get("gk", (z3.Int("gk1!init"), z3.Int("gk2!init")))
        if s.ghost.get("inv_mode") == "assume":
            return ptop_with(t, gk1, gk2)
        cands = [gk1, gk2, i - 1, i - 2, i - 3, i, Ls - 1]      # (the invariant is re-established after i++)
        # the candidates are proof hints; the clause itself is the existential, kept as a disjunct so that a state the hints do not
        # cover is left undecided instead of being refuted by a model of the (stronger) hinted form
        e1, e2 = z3.Ints("c1!ex c2!ex")
        return z3.Or([ptop_with(t, c1, c2) for c1 in cands for c2 in cands] + [z3.Exists([e1, e2], ptop_with(t, e1, e2))])

    def inv(it, s):
        i = Z(local(it, s, fn, "i"))
        pi, ps = Z(local(it, s, fn, "prev_index")), Z(local(it, s, fn, "prev_sample"))
        bot, top = Z(local(it, s, fn, "bottom_index")), Z(local(it, s, fn, "top_index"))
        return [("range", z3.And(i >= 0, i <= Ls)),
                ("prev", z3.Implies(i > 0, z3.And(pi == z3.Select(b, i - 1), ps == z3.Select(g, i - 1)))),
                ("bottom", z3.If(i <= jw + 1, bot == -1, bot == w)),
                ("top", z3.Or(z3.And(top == -1, z3.ForAll([x], z3.Implies(z3.And(0 <= x, x < i), z3.Select(g, x) <= E))),
                              z3.And(top != -1, ptop(top, s, i)))),
                ("top_after_block_of_w", z3.Implies(top != -1, i > jw + 1)),
                ("row_count_range", z3.And(Z(local(it, s, fn, "row_count")) >= 0, Z(local(it, s, fn, "row_count")) <= i)),
                ("not_rejected", Z(s.mem[orows]) == Z(rows0))]

    def havoc(it, s):
        for nm in ("i", "this_index", "this_sample", "prev_index", "prev_sample", "bottom_index", "top_index", "row_count"):
            set_local(it, s, fn, nm, fresh_int(nm))
        s.ghost["gk"] = (fresh_int("ghost_k1"), fresh_int("ghost_k2"))

    def inv2(it, s):
        return [("rows_nonneg", Z(local(it, s, fn, "rows_written")) >= 0)]

    def havoc2(it, s):
        for nm in ("i", "this_index", "this_sample", "prev_index", "prev_sample", "rows_written"):
            set_local(it, s, fn, nm, fresh_int(nm))
        for oid, v in list(s.mem.items()):
            if isinstance(v, ArrVal) and oid.startswith("heap"):
                s.mem[oid] = ArrVal(z3.Array("ret_havoc!%d" % len(s.pc), z3.IntSort(), z3.IntSort()), v.length, v.elem)
    n0 = len(interp.obls)
    def on_exit1(it, s):
        # ghost: the loop position at which the first pass was left (normal exit or break); the witness blocks of P(top) lie next to it
        s.ghost["i_exit"] = Z(local(it, s, fn, "i"))
    paths = interp.run_function(INDEX_FN, st, args, {"overflow": "check", "loops": {1: {"invariant": inv, "havoc": havoc, "on_exit": on_exit1},
                                                                                    2: {"invariant": inv2, "havoc": havoc2}}})
    out = []
    for o in interp.obls[n0:]:
        if o.kind == "inv" and ".loop1." in o.label:
            o.label = o.label.replace(INDEX_FN + ".loop1", INDEX_FN + ".T_unbounded.loop")
            out.append(o)
        elif o.kind == "inv" and "rows_nonneg" in o.label:
            o.label = INDEX_FN + ".T_unbounded.loop2." + o.label.split(".loop2.")[1]
            out.append(o)
        elif o.kind == "safety" and o.line <= _t_assign_line(interp, fn):
            # no-wrap / bounds obligations of the first pass and of the T computation, for every index_len
            o.label = o.label.split(".")[0] + "." + INDEX_FN + ".T_unbounded"
            out.append(o)
    for s, rv in paths:
        rows_out = Z(s.mem[orows])
        T = Z(s.mem[ostw])
        out.append(Obl("%s.T_unbounded.accepts_wellformed" % INDEX_FN, INDEX_FN, fn["_line"], s.pc, rows_out != -1, kind="post", qhyps=s.qpc))
        s2 = s.copy()
        s2.assume(rows_out != -1)
        gk1, gk2 = s.ghost.get("gk", (Ls - 1, Ls - 1))
        cands = [gk1, gk2, Ls - 1, Ls - 2, jw]
        if "i_exit" in s.ghost:
            ie = s.ghost["i_exit"]
            cands += [ie, ie - 1, ie - 2]
        e1, e2 = z3.Ints("c1!ex c2!ex")
        goal = z3.And(T >= 1, w + T <= V, T <= a.left,
                      z3.Or([z3.And(inblk(c1, w + T - 1), val(c1, w + T - 1) < E) for c1 in cands] + [z3.Exists([e1], z3.And(inblk(e1, w + T - 1), val(e1, w + T - 1) < E))]),
                      z3.Or(w + T == V, z3.Or([z3.And(inblk(c2, w + T), val(c2, w + T) >= E) for c2 in cands] + [z3.Exists([e2], z3.And(inblk(e2, w + T), val(e2, w + T) >= E))])))
        out.append(Obl("%s.T_unbounded.samples_to_write" % INDEX_FN, INDEX_FN, fn["_line"], s2.pc, goal, kind="post", qhyps=s2.qpc))
    del interp.obls[n0:]
    interp.obls.extend(out)
    return a


def verify_write_index_rebase_unbounded(interp):
    """digital_rf_write_rf_data_index, extend branch, for every block_index_len: every row offset is increased by
    dataset_index and nothing else in the array changes (loop invariant over the rebasing loop)."""
    from . import c_obj
    from .c_blocks import local, set_local
    name = "digital_rf_write_rf_data_index"
    tu = interp.tu
    fn = tu.funcs.get(name)
    if fn is None:
        raise Undecided(name + " not found")
    st = State()
    wptr, wf = c_obj.make_writer(interp, st)
    R = z3.Int("block_index_len")
    arr0 = z3.Array("rows", z3.IntSort(), z3.IntSort())
    oarr = st.new_obj(ArrVal(arr0, 2 * R), "rows")
    di, nia = wf["dataset_index"], wf["next_index_avail"]
    j = z3.Int("j!rb")
    st.assume(z3.And(wf["index_dataset"] != 0, R >= 1, R < (1 << 30), di >= 0, di < U62, nia >= 0, nia < (1 << 30)))
    st.assume(z3.ForAll([j], z3.Implies(z3.And(j >= 0, j < 2 * R), z3.And(z3.Select(arr0, j) >= 0, z3.Select(arr0, j) < U62))))

    def cur(s):
        return s.mem[oarr].arr

    def inv(it, s):
        i = Z(local(it, s, fn, "i"))
        a1 = cur(s)
        return [("range", z3.And(i >= 0, i <= R)),
                ("rebased_prefix", z3.ForAll([j], z3.Implies(z3.And(j >= 0, j < R),
                                                             z3.And(z3.Select(a1, 2 * j) == z3.Select(arr0, 2 * j),
                                                                    z3.Select(a1, 2 * j + 1) == z3.Select(arr0, 2 * j + 1) + z3.If(j < i, di, 0)))))]

    def havoc(it, s):
        set_local(it, s, fn, "i", fresh_int("i"))
        s.mem[oarr] = ArrVal(z3.Array("rows_havoc!%d" % len(s.pc), z3.IntSort(), z3.IntSort()), 2 * R, "u64")
    n0 = len(interp.obls)
    paths = interp.run_function(name, st, [wptr, Ptr(oarr, 0), R], {"overflow": "check", "loops": {1: {"invariant": inv, "havoc": havoc}}})
    out = []
    for o in interp.obls[n0:]:
        if o.kind == "inv":
            o.label = o.label.replace(name + ".loop1", name + ".rebase_unbounded.loop")
            out.append(o)
        elif o.kind == "safety" and o.label.startswith(("bounds.", "nowrap.")):
            o.label = o.label.split(".")[0] + "." + name + ".rebase_unbounded"
            out.append(o)
    nok = 0
    for s, rv in paths:
        s_ok = s.copy()
        s_ok.assume(Z(rv) == 0)
        if not interp.feasible(s_ok):
            continue
        nok += 1
        a1 = cur(s)
        goal = z3.ForAll([j], z3.Implies(z3.And(j >= 0, j < R), z3.And(z3.Select(a1, 2 * j) == z3.Select(arr0, 2 * j),
                                                                       z3.Select(a1, 2 * j + 1) == z3.Select(arr0, 2 * j + 1) + di)))
        out.append(Obl("%s.rebase_unbounded.all_rows_rebased" % name, name, fn["_line"], s_ok.pc, goal, kind="post", qhyps=s_ok.qpc))
        out.append(Obl("%s.rebase_unbounded.next_index_avail" % name, name, fn["_line"], s_ok.pc,
                       Z(s.mem[wptr.obj].fields["next_index_avail"]) == nia + R, kind="post", qhyps=s_ok.qpc))
    if not nok:
        raise EngineError("no successful path through " + name)
    del interp.obls[n0:]
    interp.obls.extend(out)


def verify_index_rows_unbounded(interp):
    """exact rows of create_rf_data_index for EVERY index_len (loop invariants over both passes).
    Ghost function cnt(j) = number of rows contributed by the blocks before j (defined by its recursion, monotone by the lemma
    L-cnt-mono); sel(j) = "block j contributes a row": j = 0 and (new file or chunked), or j >= 1 and the block starts after the write
    position and before the end of the file window (w < b[j] and g[j] < E; equivalent to w < b[j] < w+T by lemma L-sel-equiv).
    pass 1: row_count = cnt(i).  pass 2: rows_written = cnt(i) and for every contributing block j < i row cnt(j) of the returned array is
    (g[j] + start, b[j] - w) (first row: the property's first-row value).  Post: rows_to_write = cnt(index_len) and that content."""
    from .c_blocks import local, set_local
    Ls = z3.Int("index_len")
    st, args, a, fn = index_setup(interp, Ls)
    g, b, V, w, E, nxt = a.g, a.b, a.V, a.w, a.E, a.next
    jw = z3.Int("ghost_block_of_w")
    x, y = z3.Ints("x!wf y!wf")
    cnt = z3.Function("cnt", z3.IntSort(), z3.IntSort())
    inblk = lambda k, t: z3.And(k >= 0, k < Ls, z3.Select(b, k) <= t, z3.Or(k == Ls - 1, t < z3.Select(b, k + 1)), t < V)
    val = lambda k, t: z3.Select(g, k) + t - z3.Select(b, k)
    P = lambda p, q: z3.And(z3.Select(b, p) < z3.Select(b, q), z3.Select(g, p) < z3.Select(g, q),
                            z3.Select(b, q) - z3.Select(b, p) <= z3.Select(g, q) - z3.Select(g, p))
    inst = lambda p, q: z3.Implies(z3.And(0 <= p, p < q, q < Ls), P(p, q))
    first_present = z3.Or(a.fe == 0, a.chunk != 0)
    first_g = a.next + a.start - z3.If(z3.And(a.cont != 0, a.chunk == 0), a.mx - a.left, 0)
    sel = lambda j: z3.If(j == 0, first_present, z3.And(w < z3.Select(b, j), z3.Select(g, j) < E))
    rowg = lambda j: z3.If(j == 0, first_g, z3.Select(g, j) + a.start)
    rowoff = lambda j: z3.If(j == 0, 0, z3.Select(b, j) - w)
    step_ax = lambda j: z3.Implies(z3.And(0 <= j, j < Ls), cnt(j + 1) == cnt(j) + z3.If(sel(j), 1, 0))
    mono = lambda p, q: z3.Implies(z3.And(0 <= p, p <= q, q <= Ls), cnt(p) <= cnt(q))
    hy = [Ls >= 1, Ls < (1 << 30), z3.Select(b, 0) == 0, w >= 0, w < V, a.left >= 1, a.left <= a.mx,
          z3.ForAll([x, y], z3.Implies(z3.And(0 <= x, x < y, y < Ls), P(x, y))),
          z3.ForAll([x], z3.Implies(z3.And(0 <= x, x < Ls), z3.And(z3.Select(b, x) >= 0, z3.Select(b, x) < V, z3.Select(g, x) >= 0, z3.Select(g, x) < U62))),
          inblk(jw, w), nxt == val(jw, w),
          z3.Implies(w == 0, z3.Select(g, 0) >= a.cursor),
          nxt + a.start - (a.mx - a.left) >= 0,
          # ghost function: recursion and (lemma L-cnt-mono) monotonicity
          cnt(0) == 0, z3.ForAll([x], step_ax(x)), z3.ForAll([x, y], mono(x, y)), z3.ForAll([x], z3.Implies(z3.And(0 <= x, x <= Ls), z3.And(cnt(x) >= 0, cnt(x) <= x)))]
    for c in hy:
        st.assume(c)
    orows, ostw, wobj = a._objs
    rows0 = st.mem[orows]

    def hints(s, i):
        # instances of the quantified hypotheses at the loop position (sound: they are instances)
        for c in (inst(i - 1, jw), inst(jw, i - 1), inst(i, jw), inst(jw, i), inst(i - 1, i), step_ax(i), mono(i + 1, Ls), mono(i, Ls),
                  z3.Implies(z3.And(0 <= i, i <= Ls), z3.And(cnt(i) >= 0, cnt(i) <= i))):
            s.assume(c)

    def inv(it, s):
        i = Z(local(it, s, fn, "i"))
        pi, ps = Z(local(it, s, fn, "prev_index")), Z(local(it, s, fn, "prev_sample"))
        return [("range", z3.And(i >= 0, i <= Ls)),
                ("prev", z3.Implies(i > 0, z3.And(pi == z3.Select(b, i - 1), ps == z3.Select(g, i - 1)))),
                ("row_count_is_cnt", Z(local(it, s, fn, "row_count")) == cnt(i)),
                ("not_rejected", Z(s.mem[orows]) == Z(rows0))]

    def havoc(it, s):
        for nm in ("i", "this_index", "this_sample", "prev_index", "prev_sample", "bottom_index", "top_index", "row_count"):
            set_local(it, s, fn, nm, fresh_int(nm))
        hints(s, Z(local(it, s, fn, "i")))

    def ret_arr(it, s):
        p = local(it, s, fn, "ret_arr")
        if not isinstance(p, Ptr) or p.obj is None or not isinstance(s.mem.get(p.obj), ArrVal):
            raise Undecided("ret_arr does not point to the allocated block at the second pass")
        return s.mem[p.obj]

    def content(arr, upto):
        j = z3.Int("j!rows")
        return z3.ForAll([j], z3.Implies(z3.And(0 <= j, j < upto, sel(j)),
                                         z3.And(z3.Select(arr, 2 * cnt(j)) == rowg(j), z3.Select(arr, 2 * cnt(j) + 1) == rowoff(j))))

    def inv2(it, s):
        i = Z(local(it, s, fn, "i"))
        pi, ps = Z(local(it, s, fn, "prev_index")), Z(local(it, s, fn, "prev_sample"))
        arr = ret_arr(it, s)
        return [("range", z3.And(i >= 0, i <= Ls)),
                ("prev", z3.Implies(i > 0, z3.And(pi == z3.Select(b, i - 1), ps == z3.Select(g, i - 1)))),
                ("rows_written_is_cnt", Z(local(it, s, fn, "rows_written")) == cnt(i)),
                ("content", content(arr.arr, i))]

    def havoc2(it, s):
        for nm in ("i", "this_index", "this_sample", "prev_index", "prev_sample", "rows_written"):
            set_local(it, s, fn, nm, fresh_int(nm))
        p = local(it, s, fn, "ret_arr")
        if isinstance(p, Ptr) and p.obj is not None and isinstance(s.mem.get(p.obj), ArrVal):
            v = s.mem[p.obj]
            s.mem[p.obj] = ArrVal(z3.Array("ret_havoc!%d" % len(s.pc), z3.IntSort(), z3.IntSort()), v.length, v.elem)
        hints(s, Z(local(it, s, fn, "i")))

    def on_exit1(it, s):
        i = Z(local(it, s, fn, "i"))
        s.assume(mono(i, Ls))
    n0 = len(interp.obls)
    paths = interp.run_function(INDEX_FN, st, args, {"overflow": "check", "loops": {1: {"invariant": inv, "havoc": havoc, "on_exit": on_exit1},
                                                                                    2: {"invariant": inv2, "havoc": havoc2}}})
    out = []
    for o in interp.obls[n0:]:
        if o.kind == "inv":
            o.label = o.label.replace(INDEX_FN + ".loop1", INDEX_FN + ".rows_unbounded.pass1").replace(INDEX_FN + ".loop2", INDEX_FN + ".rows_unbounded.pass2")
            out.append(o)
        elif o.kind == "safety" and o.line > _t_assign_line(interp, fn):
            # allocation size, stores into the returned block, the assert after the second pass - for every index_len
            o.label = o.label.split(".")[0] + "." + INDEX_FN + ".rows_unbounded"
            out.append(o)
    for s, rv in paths:
        rows_out = Z(s.mem[orows])
        s2 = s.copy()
        s2.assume(rows_out != -1)
        out.append(Obl("%s.rows_unbounded.row_count" % INDEX_FN, INDEX_FN, fn["_line"], s2.pc, rows_out == cnt(Ls), kind="post", qhyps=s2.qpc))
        if isinstance(rv, Ptr) and rv.obj is not None and isinstance(s.mem.get(rv.obj), ArrVal):
            arr = s.mem[rv.obj]
            s3 = s2.copy()
            s3.assume(z3.Not(B(interp.isnull(rv))))
            out.append(Obl("%s.rows_unbounded.rows" % INDEX_FN, INDEX_FN, fn["_line"], s3.pc, content(arr.arr, Ls), kind="post", qhyps=s3.qpc))
            out.append(Obl("%s.rows_unbounded.rows_alloc" % INDEX_FN, INDEX_FN, fn["_line"], s3.pc, Z(arr.length) == 2 * rows_out, kind="post", qhyps=s3.qpc))
        else:
            out.append(Obl("%s.rows_unbounded.null_only_if_no_rows" % INDEX_FN, INDEX_FN, fn["_line"], s2.pc, rows_out == 0, kind="post", qhyps=s2.qpc))
    del interp.obls[n0:]
    interp.obls.extend(out)
    return a


def lemmas_rows_unbounded():
    """L-cnt-mono (step of the induction on the distance: cnt(q+1) >= cnt(q)) and L-sel-equiv (for a block that starts after the write
    position: 'starts before the end of the file window' <=> 'starts inside the T samples written')"""
    Ls, w, V, E, T, j, c1, c2, p, q = z3.Ints("index_len samples_written vector_len E T j c1 c2 p q")
    g, b = z3.Array("g", z3.IntSort(), z3.IntSort()), z3.Array("b", z3.IntSort(), z3.IntSort())
    cnt = z3.Function("cnt", z3.IntSort(), z3.IntSort())
    selq = z3.Bool("sel_q")
    out = [Obl("L-cnt-mono.step", "spec", 0, [0 <= p, p <= q, q < Ls, cnt(p) <= cnt(q), cnt(q + 1) == cnt(q) + z3.If(selq, 1, 0)], cnt(p) <= cnt(q + 1), kind="lemma"),
           Obl("L-cnt-mono.base", "spec", 0, [0 <= p, p <= Ls], cnt(p) <= cnt(p), kind="lemma")]
    P = lambda a_, c_: z3.And(z3.Select(b, a_) < z3.Select(b, c_), z3.Select(g, a_) < z3.Select(g, c_),
                              z3.Select(b, c_) - z3.Select(b, a_) <= z3.Select(g, c_) - z3.Select(g, a_))
    inst = lambda a_, c_: z3.Implies(z3.And(0 <= a_, a_ < c_, c_ < Ls), P(a_, c_))
    inblk = lambda k, t: z3.And(k >= 0, k < Ls, z3.Select(b, k) <= t, z3.Or(k == Ls - 1, t < z3.Select(b, k + 1)), t < V)
    val = lambda k, t: z3.Select(g, k) + t - z3.Select(b, k)
    hy = [Ls >= 1, 1 <= j, j < Ls, w >= 0, T >= 1, w + T <= V, w < z3.Select(b, j), z3.Select(b, j) < V,
          inblk(c1, w + T - 1), val(c1, w + T - 1) < E, z3.Or(w + T == V, z3.And(inblk(c2, w + T), val(c2, w + T) >= E)),
          inst(j, c1), inst(c1, j), inst(j, c2), inst(c2, j), inst(j, c1 + 1), inst(c1 + 1, j), inst(c2 - 1, j), inst(j, c2 - 1), inst(j, c2 + 1), inst(c2 + 1, j)]
    xq, yq = z3.Ints("x!wf y!wf")
    hy.append(z3.ForAll([xq, yq], z3.Implies(z3.And(0 <= xq, xq < yq, yq < Ls), P(xq, yq))))
    out.append(Obl("L-sel-equiv", "spec", 0, hy, (z3.Select(g, j) < E) == (z3.Select(b, j) < w + T), kind="lemma"))
    return out
