"""Step contract of digital_rf_write_samples_to_file (properties C01, C04, C05, C06, C19) over a ghost model of the
current HDF5 file, verified modularly: callees get_global_sample, get_subdir_file, create_rf_data_index,
write_rf_data_index by contract; create_hdf5_file, close_hdf5_file, create_new_directory, check_hdf5_directory,
extend_dataset, write_metadata are loop-free and executed in place (their effects appear on the path's trace)."""
import z3
from dvc.core import *
from dvc import cext, cfront
from spec.timespec import PS, Y10K, ceil_is, multiple_of
from .base import NS
from . import c_obj, c_layout, c_time, c_index

U62, U63 = 1 << 62, 1 << 63
G = z3.Function("Gmap", z3.IntSort(), z3.IntSort())       # block map of the call (abstract)
STEP_FN = "digital_rf_write_samples_to_file"
STEP_PARAMS = ["hdf5_data_object", "samples_written", "global_index_arr", "data_index_arr", "index_len", "vector", "vector_length"]
INLINE = ("digital_rf_create_hdf5_file", "digital_rf_close_hdf5_file", "digital_rf_create_new_directory",
          "digital_rf_check_hdf5_directory", "digital_rf_extend_dataset", "digital_rf_write_metadata")


def config_domain(wf):
    """property domain of a writer configuration (quantifier of C01/C04)"""
    n, d, S, F = wf["sample_rate_numerator"], wf["sample_rate_denominator"], wf["subdir_cadence_secs"], wf["file_cadence_millisecs"]
    return [n >= 1, n < (1 << 32), d >= 1, d <= 10 ** 9, n * d < (1 << 64), S >= 1, S < (1 << 32), F >= 1, F < (1 << 32),
            multiple_of(S * 1000, F), wf["num_subchannels"] >= 1, wf["global_start_sample"] >= 0,
            z3.Or(wf["needs_chunking"] == 0, wf["needs_chunking"] == 1), z3.Or(wf["is_continuous"] == 0, wf["is_continuous"] == 1),
            z3.Or(wf["is_complex"] == 0, wf["is_complex"] == 1),
            # needs_chunking = checksum || compression || !continuous  =>  !chunk implies continuous
            z3.Implies(wf["needs_chunking"] == 0, wf["is_continuous"] == 1)]


def index_domain(k, wf):
    n, d, F = wf["sample_rate_numerator"], wf["sample_rate_denominator"], wf["file_cadence_millisecs"]
    return [k >= 0, k < U63, k * d < Y10K * n, (1000 * k * d + F * n + n) <= (U63 - 2) * 1000 * d]


def subdir_str(T):
    return cext.parse_fmt(c_layout.SUBDIR_FMT, [c_time.GM(p)(T) for p in c_time.PARTS])


def base_str(fs, fm):
    return cext.parse_fmt(c_layout.BASE_FMT, [fs, fm])


class StepCtx:
    pass


def make_handlers(ctx):
    a = ctx.a
    wf = ctx.wf

    def h_global_sample(interp, st, args, n):
        w = args[0]
        interp.oblige(st, "pre.digital_rf_get_global_sample@%s.args" % interp.func,
                      z3.And(Z(w) == a.w, Z(args[3]) == a.L), n["_line"], kind="pre")
        return [(st, G(a.w))]

    def h_subdir_file(interp, st, args, n):
        wptr, gs, subdir, basename, pleft, pmax = args
        k = Z(gs) + wf["global_start_sample"]
        aa = NS(global_sample=Z(gs), start=wf["global_start_sample"], k=k, n=wf["sample_rate_numerator"], d=wf["sample_rate_denominator"],
                S=wf["subdir_cadence_secs"], F=wf["file_cadence_millisecs"])
        for label, c in c_layout.requires(aa):
            interp.oblige(st, "pre.digital_rf_get_subdir_file@%s.%s" % (interp.func, label), c, n["_line"], kind="pre")
        st = st.copy()
        fs, fm, T = fresh_int("file_sec"), fresh_int("file_msec"), fresh_int("dir_sec")
        r = NS(ret=0, T=T, t=1000 * fs + fm, left=fresh_int("samples_left"), max=fresh_int("max_samples"))
        st.assume(z3.And(fm >= 0, fm < 1000, fs >= 0))
        for label, g in c_layout.ensures(aa, r):
            st.assume(g)
        cext.set_str(interp, st, subdir, subdir_str(T))
        cext.set_str(interp, st, basename, base_str(fs, fm))
        interp.store(st, (pleft.obj, tuple(pleft.path)), r.left, n["_line"])
        interp.store(st, (pmax.obj, tuple(pmax.path)), r.max, n["_line"])
        st.ghost["names"] = dict(T=T, t=r.t, fs=fs, fm=fm, left=r.left, max=r.max, k=k, next=Z(gs))
        # calendar breakdown is injective on [0, Y10K): equal directory names mean equal directory seconds
        gh = ctx.gh
        if gh is not None:
            same = z3.And([c_time.GM(p)(T) == c_time.GM(p)(gh.T) for p in c_time.PARTS])
            st.assume(z3.Implies(same, T == gh.T))
            # same file time => same window: instance of lemma L-fstart-unique (ceil is a function), discharged separately
            st.assume(z3.Implies(z3.And(fs == gh.fs, fm == gh.fm), z3.And(r.left + k == gh.X2, r.left + k - r.max == gh.X1)))
        return [(st, 0)]

    def h_create_index(interp, st, args, n):
        (wptr, w, left, mx, garr, barr, L, V, nxt, prow, pstw, fe) = args
        nm = st.ghost.get("names")
        if nm is None:
            raise Undecided("create_rf_data_index called before get_subdir_file")
        pre = [("args", z3.And(Z(w) == a.w, Z(L) == a.L, Z(V) == a.V, Z(nxt) == G(a.w))),
               ("left_max", z3.And(Z(left) == nm["left"], Z(mx) == nm["max"], Z(left) >= 1, Z(left) <= Z(mx))),
               ("first_sample_nonneg", Z(nxt) + wf["global_start_sample"] - (Z(mx) - Z(left)) >= 0)]
        for label, c in pre:
            interp.oblige(st, "pre.%s@%s.%s" % (c_index.INDEX_FN, interp.func, label), c, n["_line"], kind="pre")
        outs = []
        # --- outcome 1: rejected (malformed call); possible only if the call is malformed
        s1 = st.copy()
        s1.assume(z3.Not(a.wf_call))
        interp.store(s1, (prow.obj, tuple(prow.path)), -1, n["_line"])
        interp.store(s1, (pstw.obj, tuple(pstw.path)), 0, n["_line"])
        s1.ghost["index"] = "rejected"
        outs.append((s1, NULL))
        # --- outcome 2: accepted
        s2 = st.copy()
        s2.assume(a.wf_call)
        T, R = fresh_int("T"), fresh_int("R")
        E = Z(nxt) + Z(left)
        arr = z3.Array("rows!%d" % len(st.trace), z3.IntSort(), z3.IntSort())
        start = wf["global_start_sample"]
        chunk, cont = wf["needs_chunking"], wf["is_continuous"]
        first_present = z3.Or(Z(fe) == 0, chunk != 0)
        rebase = z3.If(z3.And(cont != 0, chunk == 0), Z(mx) - Z(left), 0)
        post = index_post(a.w, a.V, a.L, Z(nxt), E, Z(left), T, R, arr, start, first_present, rebase)
        for c in post:
            s2.assume(c)
        interp.store(s2, (prow.obj, tuple(prow.path)), R, n["_line"])
        interp.store(s2, (pstw.obj, tuple(pstw.path)), T, n["_line"])
        s2.ghost["index"] = dict(T=T, R=R, arr=arr, E=E, first_present=first_present, rebase=rebase, fe=Z(fe))
        # R == 0 -> NULL ; R > 0 -> block of 2R entries
        s2a = s2.copy()
        s2a.assume(R == 0)
        outs.append((s2a, NULL))
        s2b = s2.copy()
        s2b.assume(R > 0)
        oid = s2b.new_obj(ArrVal(arr, 2 * R), "rows")
        s2b.ghost["rows_obj"] = oid
        outs.append((s2b, Ptr(oid, 0)))
        return [(s, v) for s, v in outs if interp.feasible(s)]

    def h_write_index(interp, st, args, n):
        wptr, parr, R = args
        if not isinstance(parr, Ptr) or parr.obj is None:
            # precondition of the callee: a block of rows. The path is cut here; if it is feasible the obligation fails and is reported,
            # if it was only kept because a feasibility query timed out the solver proves it infeasible.
            interp.oblige(st, "pre.digital_rf_write_rf_data_index.rows_nonnull", False, n["_line"], kind="pre")
            return []
        wobj = st.mem[wptr.obj]
        idx_ds = wobj.fields["index_dataset"]
        di = wobj.fields["dataset_index"]
        nia = wobj.fields["next_index_avail"]
        outs = []
        for isnew in (True, False):
            s = st.copy()
            s.assume(Z(idx_ds) == 0 if isnew else Z(idx_ds) != 0)
            if not interp.feasible(s):
                continue
            arrv = s.mem[parr.obj]
            if not isinstance(arrv, ArrVal):
                raise Undecided("write_rf_data_index: rows argument is not an array")
            for fail in (False, True):
                s2 = s.copy()
                status = fresh_int("idx_status")
                s2.assume(status != 0 if fail else status == 0)
                w2 = s2.mem[wptr.obj]
                rebase = 0 if isnew else di
                if isnew:
                    newid = fresh_int("index_dataset")
                    s2.assume(newid != 0)
                    w2 = w2.set("index_dataset", newid)
                    if not fail:
                        w2 = w2.set("next_index_avail", Z(R))
                else:
                    # offsets rebased in place by the number of samples already in the file
                    j = z3.Int("j!rebase%d" % len(s2.trace))
                    new = z3.Array("rows_rebased!%d" % len(s2.trace), z3.IntSort(), z3.IntSort())
                    s2.assume(z3.ForAll([j], z3.Implies(z3.And(j >= 0, j < Z(R)),
                                                        z3.And(z3.Select(new, 2 * j) == z3.Select(arrv.arr, 2 * j),
                                                               z3.Select(new, 2 * j + 1) == z3.Select(arrv.arr, 2 * j + 1) + Z(di)))))
                    for jj in (0, Z(R) - 1):
                        s2.assume(z3.And(z3.Select(new, 2 * jj) == z3.Select(arrv.arr, 2 * jj),
                                         z3.Select(new, 2 * jj + 1) == z3.Select(arrv.arr, 2 * jj + 1) + Z(di)))
                    s2.mem[parr.obj] = ArrVal(new, arrv.length, arrv.elem)
                    if not fail:
                        w2 = w2.set("next_index_avail", Z(nia) + Z(R))
                s2.mem[wptr.obj] = w2
                s2.trace.append(Effect("index_append", [arrv.arr, Z(R), rebase, isnew], status, n["_line"], interp.func,
                                       {"fail": fail}))
                outs.append((s2, status))
        return outs

    return {"digital_rf_get_global_sample": h_global_sample, "digital_rf_get_subdir_file": h_subdir_file,
            c_index.INDEX_FN: h_create_index, "digital_rf_write_rf_data_index": h_write_index}


def index_post(w, V, L, nxt, E, left, T, R, arr, start, first_present, rebase, G=G, unroll=None):
    """Abstract postcondition of create_rf_data_index in terms of the block map G (what callers may rely on)."""
    j = z3.Int("j!rows")
    sel = lambda i: z3.Select(arr, i)
    row_ok = lambda jj: z3.And(sel(2 * jj + 1) >= 0, sel(2 * jj + 1) < T,
                               # the row's sample is the block map of its data position
                               z3.If(z3.And(jj == 0, first_present), z3.And(sel(1) == 0, sel(0) + rebase - start == nxt),
                                     z3.And(sel(2 * jj + 1) > 0, sel(2 * jj) - start == G(w + sel(2 * jj + 1)))))
    link_ok = lambda jj: z3.And(sel(2 * jj + 1) < sel(2 * jj + 3), sel(2 * jj) < sel(2 * jj + 2),
                                sel(2 * jj + 2) - sel(2 * jj) >= sel(2 * jj + 3) - sel(2 * jj + 1),
                                # data between two rows is contiguous (a gap the writer was told about always starts a row)
                                G(w + sel(2 * jj + 3) - 1) == G(w + sel(2 * jj + 1)) + sel(2 * jj + 3) - 1 - sel(2 * jj + 1))
    facts = [
        T >= 1, w + T <= V, G(w + T - 1) < E, z3.Or(w + T == V, G(w + T) >= E), T <= left,
        G(w + T - 1) >= nxt + T - 1,
        R >= 0, R <= L, R <= z3.If(first_present, 1, 0) + (L - 1),
        z3.Implies(R == 0, z3.And(z3.Not(first_present), G(w + T - 1) == nxt + T - 1)),
        (z3.ForAll([j], z3.Implies(z3.And(j >= 0, j < R), row_ok(j))) if unroll is None else
         z3.And([z3.Implies(jj < R, row_ok(z3.IntVal(jj))) for jj in range(unroll)])),
        (z3.ForAll([j], z3.Implies(z3.And(j >= 0, j < R - 1), link_ok(j))) if unroll is None else
         z3.And([z3.Implies(jj < R - 1, link_ok(z3.IntVal(jj))) for jj in range(unroll)])),
        z3.Implies(R > 0, z3.And(row_ok(0), row_ok(R - 1))),
        z3.Implies(R > 1, z3.And(link_ok(0), link_ok(R - 2))),
        # after the last row the data is contiguous up to the end of this step
        z3.Implies(R > 0, G(w + T - 1) == G(w + sel(2 * R - 1)) + (T - 1 - sel(2 * R - 1))),
        # before the first row (when the step continues the previous data of an existing, unchunked file)
        z3.Implies(z3.And(R > 0, z3.Not(first_present)), G(w + sel(1) - 1) == nxt + sel(1) - 1),
    ]
    return facts


def step_setup(interp, scenario):
    """scenario 'fresh': no file was ever opened (sub_directory NULL, hdf5_file 0);
    'open': a file is open and the record invariant RecInv holds for it."""
    tu = interp.tu
    if STEP_FN not in tu.funcs:
        raise Undecided(STEP_FN + " not found")
    fn = tu.funcs[STEP_FN]
    params = [c["name"] for c in fn["inner"] if c.get("kind") == "ParmVarDecl"]
    if params != STEP_PARAMS:
        raise Undecided("signature of %s changed: %s" % (STEP_FN, params))
    st = State()
    isnull = z3.BoolVal(scenario == "fresh")
    wptr, wf = c_obj.make_writer(interp, st, subdir_null=isnull)
    a = NS(w=z3.Int("samples_written"), L=z3.Int("index_len"), V=z3.Int("vector_length"),
           g=z3.Array("g", z3.IntSort(), z3.IntSort()), b=z3.Array("b", z3.IntSort(), z3.IntSort()),
           wf_call=z3.Bool("call_is_wellformed"))
    og = st.new_obj(ArrVal(a.g, a.L), "g")
    ob = st.new_obj(ArrVal(a.b, a.L), "b")
    ovec = st.new_obj(Opaque("sample data"), "vector")
    args = [wptr, a.w, Ptr(og, 0), Ptr(ob, 0), a.L, Ptr(ovec, 0), a.V]
    ctx = StepCtx()
    ctx.a, ctx.wf, ctx.wptr, ctx.fn, ctx.scenario, ctx.vec = a, wf, wptr, fn, scenario, ovec
    start = wf["global_start_sample"]
    elem = z3.Function("q_H5Tget_size", z3.IntSort(), z3.IntSort())(wf["dtype_id"])
    hyp = config_domain(wf) + [a.w >= 0, a.w < a.V, a.V < (1 << 40), elem >= 1, elem <= 16, wf["num_subchannels"] < (1 << 16), a.L >= 0, a.L < (1 << 30), wf["has_failure"] == 0,
                               z3.Implies(wf["is_continuous"] != 0, a.L <= 1),      # checked by digital_rf_write_blocks_hdf5
                               wf["global_index"] >= 0, wf["global_index"] < U62, start < U62]
    # block map facts that hold for every well-formed call (instances used by the step)
    p, q = z3.Ints("p!G q!G")
    hyp += [z3.Implies(a.wf_call, z3.And(a.L >= 1, z3.Select(a.b, 0) == 0, G(0) == z3.Select(a.g, 0), G(a.w) >= 0, G(a.w) < U62,
                                         z3.ForAll([p, q], z3.Implies(z3.And(0 <= p, p <= q, q < a.V), G(q) - G(p) >= q - p)),
                                         # forward only: the first sample of the call is not before the cursor
                                         G(0) >= wf["global_index"]))]
    hyp += [G(a.w) >= 0, G(a.w) < U62]          # values of a uint64_t array (property domain: indices below 2^62)
    hyp += index_domain(G(a.w) + start, wf)
    gh = None
    if scenario == "fresh":
        hyp += [wf["hdf5_file"] == 0, wf["dataset"] == 0, wf["index_dataset"] == 0, wf["dataspace"] == 0, wf["filespace"] == 0,
                wf["memspace"] == 0, wf["dataset_index"] == 0, wf["next_index_avail"] == 0, wf["present_seq"] >= -1,
                wf["present_seq"] < (1 << 30)]
    else:
        gh = NS(fs=z3.Int("gh.file_sec"), fm=z3.Int("gh.file_msec"), T=z3.Int("gh.dir_sec"), len=z3.Int("gh.len"),
                nrows=z3.Int("gh.nrows"), lastg=z3.Int("gh.last_row_sample"), lastoff=z3.Int("gh.last_row_offset"),
                X1=z3.Int("gh.X1"), X2=z3.Int("gh.X2"))
        gh.t = 1000 * gh.fs + gh.fm
        hyp += recinv(wf, gh, a)
        # strings of the open file
        wv = st.mem[wptr.obj]
        st.mem[wv.fields["sub_directory"].obj] = subdir_str(gh.T)
        st.mem[wptr.obj] = wv.set("basename", base_str(gh.fs, gh.fm))
        wf["basename"] = st.mem[wptr.obj].fields["basename"]
    ctx.gh = gh
    for c in hyp:
        st.assume(c)
    ctx.st0 = st
    ctx.args = args
    return ctx


def recinv(wf, gh, a):
    """Record invariant while a file is open (ghost: gh.* describe the open file)."""
    n, d, F = wf["sample_rate_numerator"], wf["sample_rate_denominator"], wf["file_cadence_millisecs"]
    chunk = wf["needs_chunking"]
    start = wf["global_start_sample"]
    di = wf["dataset_index"]
    return [
        wf["hdf5_file"] != 0, wf["dataset"] != 0, wf["index_dataset"] != 0, wf["dataspace"] != 0,
        wf["filespace"] != 0, wf["memspace"] != 0,
        gh.fm >= 0, gh.fm < 1000, gh.fs >= 0, multiple_of(gh.t, F), gh.T >= 0, gh.T < Y10K,
        c_layout.fstart_is(gh.X1, gh.t, n, d), c_layout.fstart_is(gh.X2, gh.t + F, n, d), gh.X1 >= 0, gh.X1 < gh.X2, gh.X2 < U63,
        gh.nrows >= 1, wf["next_index_avail"] == gh.nrows, gh.nrows < (1 << 30),
        gh.lastoff >= 0, gh.lastoff < di, gh.lastg >= gh.X1 + gh.lastoff,
        z3.If(chunk != 0, z3.And(di == gh.len, gh.len >= 1),
              z3.And(gh.len == gh.X2 - gh.X1, di <= gh.len, gh.nrows == 1, gh.lastoff == 0, gh.lastg == gh.X1)),
        # the cursor is one past the last sample stored in the open file, which lies inside the file window
        wf["global_index"] + start == gh.lastg + (di - gh.lastoff),
        gh.lastg + (di - gh.lastoff) <= gh.X2,
        wf["present_seq"] >= 0, wf["present_seq"] < (1 << 30),
    ]


# ------------------------------------------------------------------------------------------------------------------
def _last(trace, name):
    xs = [e for e in trace if e.name == name]
    return xs[-1] if xs else None


def _ptrval(x):
    """snapshot ('ptr', Ptr, value) -> value"""
    if isinstance(x, tuple) and len(x) == 3 and x[0] == "ptr":
        return x[2]
    return None


def run_step(interp, scenario):
    ctx = step_setup(interp, scenario)
    interp.contracts = make_handlers(ctx)
    interp.config.setdefault("inline", INLINE)
    interp.config.setdefault("prune_full", False)     # branch feasibility from the linear part of the path condition
    ctx.paths = interp.run_function(STEP_FN, ctx.st0, ctx.args, {"overflow": "wrap", "wrap_ok": ()})
    if not ctx.paths:
        raise EngineError("no feasible path through %s (%s)" % (STEP_FN, scenario))
    return ctx


def analyse_step(interp, ctx, struct):
    """Turns the explored paths of write_samples_to_file into named obligations. `struct(label, ok, detail, meta)`
    records structural (solver-free) obligations."""
    a, wf0, gh, sc = ctx.a, ctx.wf, ctx.gh, ctx.scenario
    wobj = ctx.wptr.obj
    fn = ctx.fn
    line = fn["_line"]
    interp.func = STEP_FN
    L = lambda x: "step.%s" % x
    n_succ = 0
    start = wf0["global_start_sample"]
    chunk, nsub = wf0["needs_chunking"], wf0["num_subchannels"]
    seen_newfile = {True: 0, False: 0}
    struct_any_path = struct
    for s, rv in ctx.paths:
        def struct(label, ok, detail="", meta=None, _s=s):
            """a clause evaluated on one explored path: when it fails, the solver decides (pc => false), because the path may have
            survived only through a timed-out feasibility query (then it is proved infeasible) - on a feasible path the obligation fails"""
            if ok:
                struct_any_path(label, True, detail, meta)
            else:
                interp.oblige(_s, label, z3.BoolVal(False), line, kind="post", meta=dict(meta or {}, detail=str(detail)[:300]))
        wfin = s.mem[wobj].fields
        ix = s.ghost.get("index")
        nm = s.ghost.get("names")
        mutating = [e for e in s.trace if e.name in MUTATORS]
        failed = is_conc(rv) and rv == 0
        meta = {"scenario": sc}
        if failed and (ix is None or ix == "rejected"):
            # ---- validation reject: nothing may have happened (C05 atomic rejection)
            unchanged = all(_same(wfin[f], wf0[f]) for f in wf0) and _same_str(s, ctx, "sub_directory")
            struct(L("reject.no_effects"), not s.trace or not mutating,
                   "a call rejected by validation must not have touched the file system / HDF5: trace %s" % [repr(e) for e in mutating][:6],
                   dict(meta, site=[repr(e) for e in mutating][:3]))
            struct(L("reject.record_unchanged"), unchanged,
                   "a call rejected by validation must leave the writer record unchanged: %s" % [f for f in wf0 if not _same(wfin[f], wf0[f])],
                   meta)
            if ix == "rejected":
                # only a malformed call is rejected, and only with nothing written by this call
                interp.oblige(s, L("reject.only_malformed"), z3.Not(a.wf_call), line, kind="post", meta=meta)
            else:
                interp.oblige(s, L("reject.entry_checks_only_malformed"), z3.Not(a.wf_call), line, kind="post", meta=meta)
            continue
        if failed:
            # ---- I/O failure or refusal after validation: classified by the fault-containment check (C10/C11)
            continue
        # ---- success ----------------------------------------------------------------------------------------
        n_succ += 1
        if not isinstance(ix, dict) or nm is None:
            raise EngineError("successful step without index/names ghost")
        T, R = ix["T"], ix["R"]
        interp.oblige(s, L("returns_samples_written"), Z(rv) == T, line, kind="post", meta=meta)
        fcreate = _last(s.trace, "H5Fcreate")
        newfile = fcreate is not None
        seen_newfile[newfile] += 1
        # C04: a new file is opened exactly when the derived name differs from the open file's name
        if sc == "open":
            same_name = z3.And(nm["T"] == gh.T, nm["fs"] == gh.fs, nm["fm"] == gh.fm)
            interp.oblige(s, L("newfile_iff_name_changes"), z3.Not(same_name) if newfile else same_name, line, kind="post", meta=meta)
        else:
            struct(L("newfile_iff_name_changes.fresh"), newfile, "the first write of a writer must create a file", meta)
        want_sub, want_base = subdir_str(nm["T"]), base_str(nm["fs"], nm["fm"])
        fin_sub = s.mem[wfin["sub_directory"].obj] if isinstance(wfin["sub_directory"], Ptr) and wfin["sub_directory"].obj else None
        eq1 = cext.str_equal(fin_sub, want_sub) if isinstance(fin_sub, SStr) else None
        eq2 = cext.str_equal(wfin["basename"], want_base) if isinstance(wfin["basename"], SStr) else None
        struct(L("names_recorded.shape"), eq1 is not None and eq2 is not None,
               "after a step the record must name the file of the step's first sample: sub_directory=%r basename=%r" % (fin_sub, wfin["basename"]), meta)
        if eq1 is not None and eq2 is not None:
            interp.oblige(s, L("names_recorded"), z3.And(eq1, eq2), line, kind="post", meta=meta)
        if newfile:
            want_path = SStr((("sym", "DIR"), "/")) + want_sub + SStr(("/",)) + want_base
            got = fcreate.args[0]
            eqp = cext.str_equal(got, want_path) if isinstance(got, SStr) else None
            struct(L("create_path.shape"), eqp is not None,
                   "H5Fcreate must be called with <dir>/<subdir>/<tmp basename> of the step's first sample; got %r" % (got,), meta)
            if eqp is not None:
                interp.oblige(s, L("create_path"), eqp, line, kind="post", meta=meta)
        # dataset offset used for this write
        hs = _last(s.trace, "H5Sselect_hyperslab")
        dw = _last(s.trace, "H5Dwrite")
        if hs is None or dw is None:
            struct(L("hyperslab"), False, "successful step without H5Sselect_hyperslab/H5Dwrite", meta)
            continue
        off = _ptrval(hs.args[2])
        size = _ptrval(hs.args[4])
        struct(L("hyperslab.shape"), isinstance(off, list) and isinstance(size, list) and len(off) == 2 and len(size) == 2
               and hs.args[3] is NULL or (isinstance(hs.args[3], Ptr) and hs.args[3].obj is None),
               "hyperslab must be selected with explicit offset/size and unit stride", meta)
        di_w = off[0]
        # C01: all columns, T rows at the dataset cursor; source = vector + w*elemsize*(2 if complex)*nsub
        interp.oblige(s, L("hyperslab.offset_size"), z3.And(Z(off[1]) == 0, Z(size[0]) == T, Z(size[1]) == nsub), line, kind="post", meta=meta)
        src = dw.args[5]
        srcptr = src[1] if isinstance(src, tuple) else src
        elem = z3.Function("q_H5Tget_size", z3.IntSort(), z3.IntSort())(wf0["dtype_id"])
        okptr = isinstance(srcptr, Ptr) and srcptr.obj == ctx.vec
        struct(L("data_pointer.base"), okptr, "H5Dwrite must read from the caller's vector", meta)
        if okptr:
            want_idx = a.w * elem * z3.If(wf0["is_complex"] != 0, 2, 1) * nsub
            interp.oblige(s, L("data_pointer.offset"), Z(srcptr.idx) == want_idx, line, kind="post", meta=meta)
            memtype = dw.args[1]
            want_type = z3.If(wf0["is_complex"] != 0, wf0["complex_dtype_id"], wf0["dtype_id"])
            interp.oblige(s, L("data_type"), Z(memtype) == want_type, line, kind="post", meta=meta)
            interp.oblige(s, L("data_target"), z3.And(Z(dw.args[0]) == Z(wfin["dataset"]), Z(dw.args[3]) == Z(hs.args[0])), line, kind="post", meta=meta)
        # ---- ghost file after the step
        di_old = wf0["dataset_index"]
        mx, left, k = nm["max"], nm["left"], nm["k"]
        X2n, X1n = left + k, left + k - mx
        if newfile:
            sc_e = [e for e in s.trace if e.name == "H5Screate_simple"]
            dc = [e for e in s.trace if e.name == "H5Dcreate2"]
            dims = _ptrval(sc_e[0].args[1]) if sc_e else None
            maxdims = _ptrval(sc_e[0].args[2]) if sc_e else None
            ok = isinstance(dims, list) and isinstance(maxdims, list) and dc
            struct(L("newfile.dataset_created"), bool(ok), "a new file needs H5Screate_simple + H5Dcreate2 for rf_data", meta)
            if not ok:
                continue
            len_new = Z(dims[0])
            interp.oblige(s, L("newfile.dataset_dims"),
                          z3.And(len_new == z3.If(chunk != 0, T, mx), Z(dims[1]) == nsub, Z(maxdims[0]) == mx, Z(maxdims[1]) == nsub),
                          line, kind="post", meta=meta)
            nm_ds = dc[0].args[1]
            # unwritten slots must read as the fill value: the creation property list may not postpone or suppress writing it
            # (H5D_FILL_TIME_NEVER = 1; the library default IFSET/ALLOC writes the user-defined fill value on allocation)
            ft = [e for e in s.trace if e.name in ("H5Pset_fill_time",)]
            bad_ft = [e for e in ft if not (is_conc(e.args[1]) and int(e.args[1]) in (0, 2))]
            struct(L("newfile.fill_value_is_written"), not bad_ft, "H5Pset_fill_time(%s) on the creation property list of rf_data: slots never written would not read as the missing-data value" % [str(e.args[1]) for e in bad_ft], meta)
            struct(L("newfile.dataset_name"), isinstance(nm_ds, SStr) and nm_ds.text() == "rf_data", "dataset must be named rf_data: %r" % (nm_ds,), meta)
            interp.oblige(s, L("newfile.dataset_type"), z3.And(Z(dc[0].args[2]) == z3.If(wf0["is_complex"] != 0, wf0["complex_dtype_id"], wf0["dtype_id"]),
                                                            Z(dc[0].args[5]) == wf0["dataset_prop"]), line, kind="post", meta=meta)
            interp.oblige(s, L("newfile.write_offset"), Z(di_w) == z3.If(chunk != 0, 0, mx - left), line, kind="post", meta=meta)
            interp.oblige(s, L("newfile.seq_incremented"), Z(wfin["present_seq"]) == wf0["present_seq"] + 1, line, kind="post", meta=meta)
            nrows_old = 0
            len_after = z3.If(chunk != 0, T, mx)
        else:
            ext = _last(s.trace, "H5Dset_extent")
            if ext is not None:
                edims = _ptrval(ext.args[1])
                interp.oblige(s, L("extend.dims"), z3.And(chunk != 0, Z(edims[0]) == di_old + T, Z(edims[1]) == nsub, Z(ext.args[0]) == wf0["dataset"]),
                              line, kind="post", meta=meta)
                len_after = gh.len + T
            else:
                interp.oblige(s, L("extend.only_unchunked_skips"), chunk == 0, line, kind="post", meta=meta)
                len_after = gh.len
            interp.oblige(s, L("existing.write_offset"), Z(di_w) == z3.If(chunk != 0, di_old, mx - left), line, kind="post", meta=meta)
            interp.oblige(s, L("existing.seq_unchanged"), Z(wfin["present_seq"]) == wf0["present_seq"], line, kind="post", meta=meta)
            nrows_old = gh.nrows
        # rows appended
        app = [e for e in s.trace if e.name == "index_append"]
        s_r0 = s.copy()
        if app:
            ap = app[-1]
            rb = ap.args[2]
            isnew = ap.args[3]
            interp.oblige(s, L("index.appended_iff_rows"), R > 0, line, kind="post", meta=meta)
            struct(L("index.new_dataset_iff_new_file"), bool(isnew) == bool(newfile), "rf_data_index is created exactly with a new file", meta)
            # stored row offsets are dataset offsets of the data they describe
            interp.oblige(s, L("index.offsets_match_data"),
                          z3.If(chunk != 0, Z(rb) == Z(di_w), z3.And(Z(rb) == 0, Z(di_w) == mx - left)), line, kind="post", meta=meta)
            rows_obj = s.ghost.get("rows_obj")
            arr_final = s.mem[rows_obj].arr if rows_obj in s.mem else None
            lastg_n = z3.Select(arr_final, 2 * R - 2)
            lastoff_n = z3.Select(arr_final, 2 * R - 1)
            firstg_n = z3.Select(arr_final, 0)
            firstoff_n = z3.Select(arr_final, 1)
            if not newfile:
                # linking with the rows already in the file: strictly increasing, no overlap
                interp.oblige(s, L("index.link_to_previous_rows"),
                              z3.And(firstoff_n > gh.lastoff, firstg_n > gh.lastg, firstg_n - gh.lastg >= firstoff_n - gh.lastoff),
                              line, kind="post", meta=meta)
            else:
                interp.oblige(s, L("index.first_row_at_offset_0"), z3.And(firstoff_n == 0, firstg_n >= X1n), line, kind="post", meta=meta)
            nrows_n = nrows_old + R
        else:
            interp.oblige(s, L("index.appended_iff_rows"), R == 0, line, kind="post", meta=meta)
            struct(L("index.no_rows_only_in_existing_file"), not newfile, "a new file must receive at least one index row", meta)
            if gh is None:
                # a writer without an open file cannot take the no-rows branch: decided by the clause above
                continue
            lastg_n, lastoff_n, nrows_n = gh.lastg, gh.lastoff, gh.nrows
        ghn = NS(fs=nm["fs"], fm=nm["fm"], t=nm["t"], T=nm["T"], len=len_after, nrows=nrows_n, lastg=lastg_n, lastoff=lastoff_n, X1=X1n, X2=X2n)
        # C19 / C05: the cursor is one past the last sample written by this step
        interp.oblige(s, L("cursor"), Z(wfin["global_index"]) == G(a.w + T - 1) + 1, line, kind="post", meta=meta)
        interp.oblige(s, L("dataset_index_advanced"), Z(wfin["dataset_index"]) == Z(di_w) + T, line, kind="post", meta=meta)
        # C04: nothing is stored outside the window of the file
        interp.oblige(s, L("stays_in_window"), z3.And(T >= 1, T <= left, G(a.w + T - 1) + start < X2n, G(a.w) + start >= X1n), line, kind="post", meta=meta)
        # record invariant re-established for the (possibly new) current file
        s2 = s.copy()
        s2.assume(z3.And(c_layout.fstart_is(X1n, nm["t"], wf0["sample_rate_numerator"], wf0["sample_rate_denominator"]) if False else True))
        wfin_z = {f: (Z(v) if not isinstance(v, (Ptr, SStr, Opaque)) else v) for f, v in wfin.items()}
        inv = recinv(wfin_z, ghn, a)
        names = ["file_open", "dataset_open", "index_open", "dataspace_open", "filespace_open", "memspace_open", "msec_lo", "msec_hi", "sec_nonneg", "file_time_multiple", "dir_nonneg", "dir_range",
                 "window_start", "window_end", "X1_nonneg", "window_nonempty", "X2_range", "nrows_ge_1", "next_index_avail", "nrows_range",
                 "lastoff_nonneg", "lastoff_lt_len", "lastg_in_window", "len_and_cursor_shape", "cursor_consistent", "data_within_window", "seq_lo", "seq_hi"]
        for nmk, c in zip(names, inv):
            if nmk in ("file_time_multiple", "window_start", "window_end", "dir_range", "X2_range", "nrows_range", "seq_hi"):
                continue   # facts of the layout contract / type ranges, not of this function
            if nmk == "len_and_cursor_shape":
                # case split on the storage mode (two small queries instead of one with a top-level ITE)
                for tag, cond in (("chunked", chunk != 0), ("unchunked", chunk == 0)):
                    sc_ = s.copy()
                    sc_.assume(cond)
                    interp.oblige(sc_, L("recinv.%s.%s" % (nmk, tag)), c, line, kind="post", meta=meta)
                continue
            interp.oblige(s, L("recinv." + nmk), c, line, kind="post", meta=meta)
    if n_succ == 0:
        raise EngineError("no successful path through %s in scenario %s" % (STEP_FN, sc))
    if sc == "open" and (seen_newfile[True] == 0 or seen_newfile[False] == 0):
        raise EngineError("scenario open must cover both the roll-over and the same-file branch: %s" % seen_newfile)
    return n_succ


MUTATORS = {"mkdir", "rename", "remove", "H5Fcreate", "H5Dcreate2", "H5Dwrite", "H5Dset_extent", "H5Acreate2", "H5Awrite",
            "H5Fclose", "H5Dclose", "index_append", "H5Pset_chunk"}


def _same(x, y):
    if x is y:
        return True
    if isinstance(x, z3.ExprRef) and isinstance(y, z3.ExprRef):
        return z3.eq(x, y)
    if is_conc(x) and is_conc(y):
        return x == y
    if isinstance(x, SStr) and isinstance(y, SStr):
        return x.key() == y.key()
    if isinstance(x, Ptr) and isinstance(y, Ptr):
        return x.obj == y.obj and x.path == y.path and (x.nullflag is y.nullflag or (x.nullflag is not None and y.nullflag is not None and z3.eq(x.nullflag, y.nullflag)))
    if isinstance(x, Opaque) and isinstance(y, Opaque):
        return x is y
    return False


def _same_str(s, ctx, field):
    p0 = ctx.st0.mem[ctx.wptr.obj].fields[field]
    p1 = s.mem[ctx.wptr.obj].fields[field]
    if not (isinstance(p0, Ptr) and isinstance(p1, Ptr)):
        return False
    if p0.obj != p1.obj:
        return False
    a0, a1 = ctx.st0.mem.get(p0.obj), s.mem.get(p1.obj)
    return a0 is a1 or (isinstance(a0, SStr) and isinstance(a1, SStr) and a0.key() == a1.key())


def lemma_index_post(L):
    """Lemma B: for index_len = L, the exact result of create_rf_data_index (rows as specified from the property)
    implies the abstract postcondition the step relies on, with G instantiated by the concrete block map.
    Returns (hyps, [(label, goal)])."""
    a = NS(L=L, w=z3.Int("samples_written"), left=z3.Int("samples_left"), mx=z3.Int("max_samples_this_file"),
           g=z3.Array("g", z3.IntSort(), z3.IntSort()), b=z3.Array("b", z3.IntSort(), z3.IntSort()),
           V=z3.Int("vector_len"), next=z3.Int("next_global_sample"), fe=z3.Int("file_exists"),
           cursor=z3.Int("cursor"), start=z3.Int("start"), chunk=z3.Int("needs_chunking"), cont=z3.Int("is_continuous"))
    a.E = a.next + a.left
    T, R = z3.Ints("T R")
    arr = z3.Array("rows", z3.IntSort(), z3.IntSort())
    hy = c_index.success_requires(a) + [z3.Or(a.fe == 0, a.fe == 1), z3.Or(a.chunk == 0, a.chunk == 1), z3.Or(a.cont == 0, a.cont == 1),
                                        z3.Implies(a.chunk == 0, a.cont == 1), a.start >= 0, a.mx >= a.left,
                                        c_index.T_is(T, a.g, a.b, L, a.V, a.w, a.E)]
    rows = c_index.spec_rows(a, T)
    pos = z3.IntVal(0)
    for p, gg, off in rows:
        hy.append(z3.Implies(p, z3.And(z3.Select(arr, 2 * pos) == gg, z3.Select(arr, 2 * pos + 1) == off)))
        pos = pos + z3.If(p, 1, 0)
    hy.append(R == pos)
    Gc = lambda p: c_index.Gmap(a.g, a.b, L, p)
    first_present = z3.Or(a.fe == 0, a.chunk != 0)
    rebase = z3.If(z3.And(a.cont != 0, a.chunk == 0), a.mx - a.left, 0)
    facts = index_post(a.w, a.V, z3.IntVal(L), a.next, a.E, a.left, T, R, arr, a.start, first_present, rebase, G=Gc, unroll=L)
    return hy, [("fact%02d" % i, f) for i, f in enumerate(facts)]
