"""Contract objects for C functions with scalar inputs and pointer outputs, usable in both directions:
verify_body (the body must establish `ensures` under `requires`) and as a call-site handler (callers must establish
`requires`, and may assume only `ensures` - never the body)."""
import z3
from dvc.core import *


class NS:
    def __init__(self, **kw):
        self.__dict__.update(kw)


class FnContract:
    def __init__(self, name, ins, outs, requires, ensures, spec=None):
        self.name, self.ins, self.outs = name, ins, outs   # outs: {param: kind}
        self.requires, self.ensures = requires, ensures
        self.spec = spec or {}

    # ---- prove the body ------------------------------------------------------------------------
    def verify_body(self, interp, prefix=None):
        tu = interp.tu
        if self.name not in tu.funcs:
            raise Undecided("function %s not found (renamed or removed?)" % self.name)
        fn = tu.funcs[self.name]
        params = [c["name"] for c in fn["inner"] if c.get("kind") == "ParmVarDecl"]
        if params != self.ins:
            raise Undecided("signature of %s changed: %s (contract written for %s)" % (self.name, params, self.ins))
        st = State()
        a = NS()
        args = []
        outobjs = {}
        for p in self.ins:
            if p in self.outs:
                oid = st.new_obj(fresh_int("old_" + p), "out_" + p)
                outobjs[p] = oid
                args.append(Ptr(oid, 0))
            else:
                v = z3.Int(p)
                setattr(a, p, v)
                args.append(v)
        for label, c in self.requires(a):
            st.assume(c)
        n0 = len(interp.obls)
        paths = interp.run_function(self.name, st, args, self.spec)
        if not paths:
            raise EngineError("no feasible path through %s: contradictory precondition?" % self.name)
        for s, rv in paths:
            r = NS(ret=rv, outs={p: s.mem[oid] for p, oid in outobjs.items()})
            for label, g in self.ensures(a, r):
                interp.func = self.name
                interp.oblige(s, "%s.%s" % (prefix or self.name, label), g, fn["_line"], kind="post",
                              meta={"syms": a.__dict__})
        for o in interp.obls[n0:]:
            o.meta.setdefault("syms", a.__dict__)
        return len(paths)

    # ---- use at call sites ---------------------------------------------------------------------
    def handler(self):
        def h(interp, st, args, n):
            a = NS()
            for p, v in zip(self.ins, args):
                if p not in self.outs:
                    if isinstance(v, (Opaque, Ptr)):
                        raise Undecided("opaque argument %s to %s (taint: floating point reaches a contract input?)" % (p, self.name))
                    setattr(a, p, Z(v))
            for label, c in self.requires(a):
                interp.oblige(st, "pre.%s@%s.%s" % (self.name, interp.func, label), c, n["_line"], kind="pre")
            st = st.copy()
            r = NS(ret=fresh_int(self.name + "_ret"), outs={})
            for p, v in zip(self.ins, args):
                if p in self.outs:
                    r.outs[p] = fresh_int(self.name + "_" + p)
            for label, g in self.ensures(a, r):
                # a clause of the form  out == expr  defines the output: store expr itself
                defined = False
                if z3.is_eq(g):
                    for p in list(r.outs):
                        if isinstance(r.outs[p], z3.ExprRef) and z3.eq(g.arg(0), r.outs[p]) and z3.is_const(r.outs[p]):
                            r.outs[p] = g.arg(1)
                            defined = True
                if not defined:
                    st.assume(g)
            for p, v in zip(self.ins, args):
                if p in self.outs:
                    if not isinstance(v, Ptr) or v.obj is None:
                        raise Undecided("out argument of %s is not a pointer" % self.name)
                    interp.store(st, (v.obj, tuple(v.path)), r.outs[p], n["_line"])
            return [(st, r.ret)]
        return h
