"""Symbolic Digital_rf_write_object built from the struct declaration of the real header (c/include/digital_rf.h)."""
import z3
from dvc.core import *

INT_FIELDS_U64 = ["subdir_cadence_secs", "file_cadence_millisecs", "global_start_sample", "sample_rate_numerator",
                  "sample_rate_denominator", "max_chunk_size", "chunk_size", "global_index", "dataset_index",
                  "dataset_avail", "block_index", "init_utc_timestamp", "last_utc_timestamp"]


def writer_fields(tu):
    rec = tu.records.get("struct digital_rf_write_object")
    if rec is None:
        raise Undecided("struct digital_rf_write_object not found in the translation unit")
    return [(f["name"], (f["type"].get("desugaredQualType") or f["type"]["qualType"])) for f in rec["inner"] if f.get("kind") == "FieldDecl"]


def make_writer(interp, st, prefix="w", subdir_null=None):
    """Allocates a symbolic writer record; returns (Ptr to it, dict field -> initial symbolic value)."""
    tu = interp.tu
    vals = {}
    init = {}
    for name, t in writer_fields(tu):
        ct = interp.ctype(t)
        if name == "directory":
            oid = st.new_obj(SStr((("sym", "DIR"),)), "dirstr")
            v = Ptr(oid, 0)
        elif name == "sub_directory":
            oid = st.new_obj(SStr((("sym", "SUBDIR0"),)), "subdirstr")
            v = Ptr(oid, 0, (), subdir_null if subdir_null is not None else z3.Bool(prefix + ".sub_directory_is_null"))
        elif name == "uuid_str":
            oid = st.new_obj(SStr((("sym", "UUID"),)), "uuidstr")
            v = Ptr(oid, 0)
        elif name == "basename":
            v = SStr((("sym", "BASENAME0"),))
        elif ct.kind == "float":
            v = Opaque("float:" + name)
        elif ct.kind == "int":
            v = z3.Int("%s.%s" % (prefix, name))
            lo, hi = ct.rng()
            st.pc.append(z3.And(v >= lo, v <= hi))
        else:
            raise Undecided("writer field %s of type %s" % (name, t))
        vals[name] = v
        init[name] = v
    oid = st.new_obj(StructVal(vals), "writer")
    return Ptr(oid, 0), init
