"""digital_rf_write_blocks_hdf5 / digital_rf_write_hdf5: the public C write API (C05, C19, C01).
The per-file step digital_rf_write_samples_to_file is used by contract (c_step verifies its body)."""
import z3
from dvc.core import *
from .base import NS
from . import c_obj, c_step

G = c_step.G
BLOCKS_FN = "digital_rf_write_blocks_hdf5"
BLOCKS_PARAMS = ["hdf5_data_object", "global_index_arr", "data_index_arr", "index_len", "vector", "vector_length"]
FRAME_EXCEPTIONS = {"chunk_size"}     # H5 chunk layout of later files; not part of the logical content


def run_blocks(interp):
    tu = interp.tu
    if BLOCKS_FN not in tu.funcs:
        raise Undecided(BLOCKS_FN + " not found")
    fn = tu.funcs[BLOCKS_FN]
    params = [c["name"] for c in fn["inner"] if c.get("kind") == "ParmVarDecl"]
    if params != BLOCKS_PARAMS:
        raise Undecided("signature of %s changed: %s" % (BLOCKS_FN, params))
    st = State()
    wptr, wf = c_obj.make_writer(interp, st)
    a = NS(L=z3.Int("index_len"), V=z3.Int("vector_length"), g=z3.Array("g", z3.IntSort(), z3.IntSort()),
           b=z3.Array("b", z3.IntSort(), z3.IntSort()), wf_call=z3.Bool("call_is_wellformed"), vec_null=z3.Bool("vector_is_null"))
    og = st.new_obj(ArrVal(a.g, a.L), "g")
    ob = st.new_obj(ArrVal(a.b, a.L), "b")
    ovec = st.new_obj(Opaque("sample data"), "vector")
    args = [wptr, Ptr(og, 0), Ptr(ob, 0), a.L, Ptr(ovec, 0, (), a.vec_null), a.V]
    cursor0 = wf["global_index"]
    hyp = [a.L >= 1, a.L < (1 << 30), a.V >= 0, a.V < (1 << 40), cursor0 >= 0, cursor0 < (1 << 62),
           z3.Select(a.g, 0) >= 0, z3.Select(a.g, 0) < (1 << 62),
           z3.Or(wf["has_failure"] == 0, wf["has_failure"] == 1), z3.Or(wf["is_continuous"] == 0, wf["is_continuous"] == 1),
           z3.Or(wf["needs_chunking"] == 0, wf["needs_chunking"] == 1),
           # meaning of "well-formed" at this level (C05): includes forward-only and the continuous-mode rule
           z3.Implies(a.wf_call, z3.And(z3.Not(a.vec_null), z3.Select(a.g, 0) >= cursor0, a.V >= 1, G(0) == z3.Select(a.g, 0),
                                        z3.Implies(wf["is_continuous"] != 0, a.L <= 1)))]
    for c in hyp:
        st.assume(c)
    ctx = NS(a=a, wf=wf, wptr=wptr, st0=st, fn=fn, ovec=ovec)

    def h_step(interp_, s, args_, n):
        wp, w, garr, barr, L, vec, V = args_
        wobj = s.mem[wp.obj]
        interp_.oblige(s, "pre.%s@%s.args" % (c_step.STEP_FN, BLOCKS_FN),
                       z3.And(Z(L) == a.L, Z(V) == a.V, Z(w) >= 0, Z(w) < a.V, Z(wobj.fields["has_failure"]) == 0,
                              z3.Implies(Z(wobj.fields["is_continuous"]) != 0, a.L <= 1)), n["_line"], kind="pre")
        struct_ok = isinstance(garr, Ptr) and garr.obj == og and isinstance(barr, Ptr) and barr.obj == ob and isinstance(vec, Ptr) and vec.obj == ovec \
            and is_conc(vec.idx) and vec.idx == 0
        ctx.struct("blocks.step_args_passed_unchanged", struct_ok, "the index arrays and the data pointer must reach the step unchanged")
        outs = []
        # 1. rejected by validation: only a malformed call, nothing touched
        s1 = s.copy()
        s1.assume(z3.Not(a.wf_call))
        s1.trace.append(Effect("step_rejected", [Z(w)], 0, n["_line"], BLOCKS_FN))
        outs.append((s1, 0))
        # 2. accepted but an I/O operation failed: anything may have happened to the open file
        s2 = s.copy()
        s2.assume(a.wf_call)
        s2.mem[wp.obj] = havoc_writer(wobj, "iofail%d" % len(s.trace), keep=CONFIG_FIELDS)
        s2.trace.append(Effect("step_io_failure", [Z(w)], 0, n["_line"], BLOCKS_FN))
        outs.append((s2, 0))
        # 3. success
        s3 = s.copy()
        s3.assume(a.wf_call)
        T = fresh_int("T")
        s3.assume(z3.And(T >= 1, Z(w) + T <= a.V))
        nw = havoc_writer(wobj, "ok%d" % len(s.trace), keep=CONFIG_FIELDS)
        nw = nw.set("global_index", G(Z(w) + T - 1) + 1).set("has_failure", 0)
        s3.mem[wp.obj] = nw
        s3.trace.append(Effect("step_ok", [Z(w), T], T, n["_line"], BLOCKS_FN))
        outs.append((s3, T))
        return outs

    interp.contracts = {c_step.STEP_FN: h_step}

    def inv(interp_, s):
        w = local(interp_, s, fn, "samples_written")
        wobj = s.mem[wptr.obj]
        return [("progress", z3.And(Z(w) >= 0, Z(w) <= a.V)),
                ("written_prefix", z3.Implies(Z(w) > 0, z3.And(a.wf_call, Z(wobj.fields["global_index"]) == G(Z(w) - 1) + 1))),
                ("untouched_before_first_step", z3.Implies(Z(w) == 0, Z(wobj.fields["global_index"]) == cursor0)),
                ("no_failure", Z(wobj.fields["has_failure"]) == 0),
                ("mode_rule", z3.Implies(Z(wobj.fields["is_continuous"]) != 0, a.L <= 1))]

    def havoc(interp_, s):
        set_local(interp_, s, fn, "samples_written", fresh_int("w"))
        set_local(interp_, s, fn, "dataset_samples_written", fresh_int("dsw"))
        wobj = s.mem[wptr.obj]
        s.mem[wptr.obj] = havoc_writer(wobj, "loop", keep=CONFIG_FIELDS)
        s.trace.append(Effect("loop_iterations", [], None, fn["_line"], BLOCKS_FN))

    ctx.struct_results = []
    ctx.struct = lambda label, ok, detail="", meta=None: ctx.struct_results.append((label, ok, detail, meta or {}))
    ctx.paths = interp.run_function(BLOCKS_FN, st, args, {"overflow": "wrap", "loops": {1: {"invariant": inv, "havoc": havoc}}})
    return ctx


CONFIG_FIELDS = {"directory", "uuid_str", "is_complex", "num_subchannels", "rank", "subdir_cadence_secs", "file_cadence_millisecs",
                 "global_start_sample", "sample_rate_numerator", "sample_rate_denominator", "sample_rate", "max_chunk_size",
                 "is_continuous", "needs_chunking", "dtype_id", "complex_dtype_id", "dataset_prop", "index_prop", "marching_dots",
                 "init_utc_timestamp", "chunk_size"}


def havoc_writer(wobj, tag, keep=()):
    f = {}
    for k, v in wobj.fields.items():
        if k in keep or isinstance(v, (Ptr, SStr, Opaque)):
            f[k] = v
        else:
            f[k] = z3.Int("w.%s!%s" % (k, tag))
    return StructVal(f)


def _find_local(fn, name):
    out = []
    def rec(n):
        if n.get("kind") == "VarDecl" and n.get("name") == name:
            out.append(n)
        for c in n.get("inner", []) or []:
            if c:
                rec(c)
    rec(fn)
    if not out:
        raise Undecided("local %s not found in %s (renamed?)" % (name, fn["name"]))
    return out[0]


def local(interp, s, fn, name):
    d = _find_local(fn, name)
    return s.mem[s.env[(s.frame, d["id"])]]


def set_local(interp, s, fn, name, v):
    d = _find_local(fn, name)
    s.mem[s.env[(s.frame, d["id"])]] = v


def analyse_blocks(interp, ctx, struct):
    a, wf0, fn = ctx.a, ctx.wf, ctx.fn
    interp.func = BLOCKS_FN
    line = fn["_line"]
    wobj = ctx.wptr.obj
    for label, ok, detail, meta in ctx.struct_results:
        struct(label, ok, detail, meta)
    seen = set()
    for s, rv in ctx.paths:
        wfin = s.mem[wobj].fields
        names = [e.name for e in s.trace]
        looped = "loop_iterations" in names
        code = rv if is_conc(rv) else None
        seen.add((code, looped))
        meta = {"ret": code}
        if code is None:
            raise Undecided("%s returns a symbolic value" % BLOCKS_FN)
        if code == 0:
            # success: every sample of the call was written and the cursor is one past the last one (C19, C05 forward-only)
            w = local(interp, s, fn, "samples_written") if False else None
            interp.oblige(s, "blocks.success.all_written_cursor",
                          z3.Implies(a.V >= 1, z3.And(a.wf_call, Z(wfin["global_index"]) == G(a.V - 1) + 1)), line, kind="post", meta=meta)
            # a zero-length call is a no-op for the cursor
            interp.oblige(s, "blocks.success.empty_call_keeps_cursor", z3.Implies(a.V == 0, Z(wfin["global_index"]) == wf0["global_index"]),
                          line, kind="post", meta=meta)
            continue
        stepfx = [e for e in s.trace if e.name.startswith("step_")]
        if not stepfx:
            # rejected by the entry checks: nothing happened except (possibly) the chunk-size set-up
            eff = [e.name for e in s.trace if e.name not in ("H5Pset_chunk",)]
            changed = [f for f in wf0 if f not in FRAME_EXCEPTIONS and not c_step._same(wfin[f], wf0[f])]
            struct("blocks.reject.no_effects", not eff, "an entry-check rejection must not touch file system / HDF5 objects: %s" % eff[:5], meta)
            struct("blocks.reject.record_unchanged", not changed, "an entry-check rejection must leave the writer record unchanged: %s" % changed, meta)
            continue
        last = stepfx[-1]
        if last.name == "step_rejected":
            # atomic rejection: the rejected step is the first one (nothing of this call was written)
            interp.oblige(s, "blocks.reject.atomic", z3.And(Z(last.args[0]) == 0, z3.Not(a.wf_call)), line, kind="post", meta=meta)
            struct("blocks.reject.reported", code != 0, "a rejected call must return non-zero", meta)
    # entry checks reject exactly: has_failure, NULL data, g[0] < cursor, continuous with several blocks
    need = {(-1, False), (-2, False), (-3, False), (-4, False), (-6, True), (0, True)}
    struct("blocks.return_codes", need <= seen or {(c, l) for c, l in seen} >= need, "expected outcomes %s, explored %s" % (sorted(need), sorted(seen)), {})
