"""Contracts for the index <-> time conversion functions of c/lib/rf_write_hdf5.c (properties C03, C04).
Postconditions are transcribed from property C03; the domain is the property's quantifier."""
import z3
from spec.timespec import PS, Y10K, floor_is, ceil_is
from .base import FnContract

U32, U63, U64 = 1 << 32, 1 << 63, 1 << 64


def floor_requires(a):
    k, n, d = a.sample_index, a.sample_rate_numerator, a.sample_rate_denominator
    return [
        ("idx_lt_2p63", z3.And(k >= 0, k < U63)),
        ("n_range", z3.And(n >= 1, n < U32)),
        ("d_range", z3.And(d >= 1, d <= 10 ** 9)),
        ("nd_lt_2p64", n * d < U64),
        ("before_y10k", k * d < Y10K * n),     # floor(k*d/n) < Y10K
    ]


def floor_ensures(a, r):
    k, n, d = a.sample_index, a.sample_rate_numerator, a.sample_rate_denominator
    s, p = r.outs["second"], r.outs["picosecond"]
    rem = k * d - s * n
    return [
        ("returns_0", r.ret == 0),
        ("second", floor_is(s, k * d, n)),                     # second = floor(idx*d/n)
        ("picosecond", floor_is(p, rem * PS, n)),              # picosecond = floor(((idx*d) mod n) * 1e12 / n)
        ("ps_range", z3.And(p >= 0, p < PS)),
        ("sec_range", z3.And(s >= 0, s < Y10K)),
    ]


def _floor_cuts():
    k, n, d = z3.Int("sample_index"), z3.Int("sample_rate_numerator"), z3.Int("sample_rate_denominator")

    def stage_sec(L, G, assuming):   # after `tmp = tmp_mod;` : *second is final, tmp is the exact remainder
        s = L.deref_second
        return [("second_and_remainder", z3.And(floor_is(s, k * d, n), L.tmp == k * d - s * n, L.tmp >= 0, L.tmp < n, s >= 0))]
    # tmp: 1 `= tmp_mod * d`, 2 `= tmp_mod`
    return {("tmp", 2): stage_sec}


FLOOR = FnContract(
    "digital_rf_get_timestamp_floor",
    ["sample_index", "sample_rate_numerator", "sample_rate_denominator", "second", "picosecond"],
    {"second": "u64", "picosecond": "u64"}, floor_requires, floor_ensures, spec={"overflow": "check", "cuts": _floor_cuts()})


def ceil_requires(a):
    s, p, n, d = a.second, a.picosecond, a.sample_rate_numerator, a.sample_rate_denominator
    return [
        ("sec_range", z3.And(s >= 0, s < Y10K + 86400 * 366)),
        ("ps_range", z3.And(p >= 0, p < PS)),
        ("n_range", z3.And(n >= 1, n < U32)),
        ("d_range", z3.And(d >= 1, d <= 10 ** 9)),
        ("result_lt_2p63", (s * PS + p) * n <= (U63 - 1) * (d * PS)),   # ceil(...) < 2^63
    ]


def ceil_ensures(a, r):
    s, p, n, d = a.second, a.picosecond, a.sample_rate_numerator, a.sample_rate_denominator
    x = r.outs["sample_index"]
    return [
        ("returns_0", r.ret == 0),
        ("exact", ceil_is(x, (s * PS + p) * n, d * PS)),       # sample_index = ceil((s + p e-12) * n / d)
        ("range", z3.And(x >= 0, x < U63)),
    ]


# ---- stage lemmas of get_sample_ceil (the source comments "now have: ..." made precise) ----------------------
# Keyed by (assigned variable, k-th assignment on the path).  Each is proved from the previous stage and then
# replaces everything known about the locals (a cut of the straight-line body), exactly like a loop invariant.
def _ceil_cuts():
    S, P, n, d = z3.Int("second"), z3.Int("picosecond"), z3.Int("sample_rate_numerator"), z3.Int("sample_rate_denominator")
    N, pp = P / 1000, P % 1000

    def stage_a(L, G, assuming):    # after `remainder = tmp_mod;`  : picosecond part, in units of samples*1e12
        return [("a_ps_part", z3.And(L.quotient * d + L.remainder == pp * n, L.remainder >= 0, L.remainder < d, L.quotient >= 0,
                                     L.nanosecond == N, L.nanosecond >= 0))]

    def stage_b(L, G, assuming):    # after 2nd `tmp_mod = tmp_mod % d` : nanosecond part
        return stage_a(L, G, assuming) + [("b_ns_part", z3.And(L.tmp_div * d + L.tmp_mod == N * n, L.tmp_mod >= 0, L.tmp_mod < d, L.tmp_div >= 0))]

    def stage_c(L, G, assuming):    # after 2nd `quotient = ...` (= tmp_div): quotient + remainder/1e3/d
        return [("c_consolidated", z3.And(L.quotient * 1000 * d + L.remainder == P * n, L.remainder >= 0, L.remainder < 1000 * d, L.quotient >= 0))]

    def stage_d(L, G, assuming):    # after `remainder = remainder/1000 + (remainder%1000 != 0)`: samples*1e9 = quotient + remainder/d
        G["Y"] = L.quotient * d + L.remainder
        return [("d_ceil_1e9", z3.And(ceil_is(G["Y"], P * n, 1000), L.remainder >= 0, L.remainder <= d, L.quotient >= 0))]

    def stage_e(L, G, assuming):    # after 3rd `tmp_mod = tmp_mod % d`: second part
        return stage_d(L, G, assuming) + [("e_sec_part", z3.And(L.tmp_div * d + L.tmp_mod == S * n, L.tmp_mod >= 0, L.tmp_mod < d, L.tmp_div >= 0))]

    def stage_f(L, G, assuming):    # after `quotient = tmp_div` (2nd time): quotient + remainder/1e9/d
        Y = z3.Int("ghost_Y") if assuming else G["Y"]   # ghost: ceil(P*n/1000), defined at stage d
        G["Y"] = Y
        return [("f_consolidated", z3.And(L.quotient * 1000000000 * d + L.remainder == S * n * 1000000000 + Y,
                                          ceil_is(Y, P * n, 1000), Y >= 0,
                                          L.remainder >= 0, L.remainder < 1000000000 * d, L.quotient >= 0))]

    # assignment ordinals along the (single) path:
    #  remainder: 1 `= tmp_mod`, 2 `+= tmp_mod*1000`, 3 `= remainder % d`, 4 `+= quotient*d`, 5 `= remainder/1000 + ..`,
    #             6 `+= tmp_mod*1e9`, 7 `= remainder % d`, 8 `+= quotient*d`, 9 `= remainder/1e9 + ..`
    #  tmp_mod:   1 `= ps % d`, 2 `*= n`, 3 `= tmp_mod % d`, 4 `= ns % d`, 5 `*= n`, 6 `= tmp_mod % d`, 7,8,9 (second part)
    #  quotient:  1 `= tmp_div`, 2 `+= rem/d`, 3 `= quotient % 1000`, 4 `= tmp_div`, 5 `+= rem/d`, 6 `= q % 1e9`, 7 `= tmp_div`
    return {("remainder", 1): stage_a, ("tmp_mod", 6): stage_b, ("quotient", 4): stage_c, ("remainder", 5): stage_d,
            ("tmp_mod", 9): stage_e, ("quotient", 7): stage_f}


CEIL = FnContract(
    "digital_rf_get_sample_ceil",
    ["second", "picosecond", "sample_rate_numerator", "sample_rate_denominator", "sample_index"],
    {"sample_index": "u64"}, ceil_requires, ceil_ensures, spec={"overflow": "check", "cuts": _ceil_cuts()})


# calendar breakdown: gm_* are the uninterpreted functions of the assumed gmtime contract (dvc/cext.py)
def GM(name):
    return z3.Function("gm_" + name, z3.IntSort(), z3.IntSort())


PARTS = ["year", "month", "day", "hour", "minute", "second"]


def parts_requires(a):
    return [("t_range", z3.And(a.unix_second >= 0, a.unix_second < Y10K))]


def parts_ensures(a, r):
    t = a.unix_second
    return [("returns_0", r.ret == 0)] + [(p, r.outs[p] == GM(p)(t)) for p in PARTS]


TIME_PARTS = FnContract(
    "digital_rf_get_time_parts", ["unix_second"] + PARTS, {p: "int" for p in PARTS},
    parts_requires, parts_ensures, spec={"overflow": "check"})


def rational_requires(a):
    a.sample_index = a.global_sample
    return floor_requires(a)


def rational_ensures(a, r):
    k, n, d = a.global_sample, a.sample_rate_numerator, a.sample_rate_denominator
    s = z3.Int("spec_second")          # existentially: the floor second (bound through the floor clauses)
    p = r.outs["picosecond"]
    # parts = calendar breakdown of floor(k*d/n); picosecond = floor of the remaining fraction
    out = [("returns_0", r.ret == 0)]
    # state with a skolem second: exists s. floor_is(s, k*d, n) /\ parts == GM(s) /\ floor_is(p, (k*d - s*n)*PS, n)
    return out + [("parts_and_ps", z3.Exists([s], z3.And(
        floor_is(s, k * d, n), floor_is(p, (k * d - s * n) * PS, n),
        *[r.outs[q] == GM(q)(s) for q in PARTS])))]


RATIONAL = FnContract(
    "digital_rf_get_unix_time_rational",
    ["global_sample", "sample_rate_numerator", "sample_rate_denominator"] + PARTS + ["picosecond"],
    dict({p: "int" for p in PARTS}, picosecond="u64"), rational_requires, rational_ensures, spec={"overflow": "check"})
