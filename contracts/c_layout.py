"""Contract of digital_rf_get_subdir_file (property C04) and the layout lemmas over the shared spec."""
import z3
from dvc.core import *
from dvc import cext
from spec.timespec import PS, Y10K, floor_is, ceil_is, multiple_of
from .base import NS
from . import c_time, c_obj

U32, U63 = 1 << 32, 1 << 63
SUBDIR_FMT = "%04i-%02i-%02iT%02i-%02i-%02i"
BASE_FMT = "tmp.rf@%lu.%03lu.h5"


def ms_to_ceil_args(t):
    """the (second, picosecond) pair the code passes to get_sample_ceil for a millisecond time t"""
    return t / 1000, (t % 1000) * 1000000000


def fstart_is(x, t, n, d):
    """x == first sample index whose time is >= t milliseconds == ceil(t*n/(1000*d)), in the form the CEIL contract gives"""
    s, p = ms_to_ceil_args(t)
    return ceil_is(x, (s * PS + p) * n, d * PS)


def requires(a):
    """a: k (absolute index = global_sample + start), n, d, S, F"""
    k, n, d, S, F = a.k, a.n, a.d, a.S, a.F
    return [
        ("idx_lt_2p63", z3.And(a.global_sample >= 0, a.start >= 0, k >= 0, k < U63)),
        ("n_range", z3.And(n >= 1, n < U32)),
        ("d_range", z3.And(d >= 1, d <= 10 ** 9)),
        ("nd_lt_2p64", n * d < (1 << 64)),
        ("before_y10k", k * d < Y10K * n),
        ("cadences", z3.And(S >= 1, S < U32, F >= 1, F < U32)),
        ("cadence_rule", multiple_of(S * 1000, F)),
        ("next_file_start_lt_2p63", (1000 * k * d + F * n + n) * 1 <= (U63 - 2) * 1000 * d),  # fstart(fms+F) < 2^63
    ]


def ensures(a, r):
    """r.T = directory second, r.t = file millisecond (both read back from the produced strings), r.left, r.max"""
    k, n, d, S, F = a.k, a.n, a.d, a.S, a.F
    return [
        ("returns_0", r.ret == 0),
        # file name = exact time floor(k*d*1000/n) ms rounded down to a multiple of the file cadence
        ("file_ms", z3.And(r.t >= 0, multiple_of(r.t, F), r.t * n <= 1000 * k * d, 1000 * k * d < (r.t + F) * n)),
        # subdirectory = exact time floor(k*d/n) s rounded down to a multiple of the subdirectory cadence
        ("dir_sec", z3.And(r.T >= 0, multiple_of(r.T, S), r.T * n <= k * d, k * d < (r.T + S) * n)),
        # samples_left = fstart(t+F) - k ; max = fstart(t+F) - fstart(t)
        ("left", fstart_is(r.left + k, r.t + F, n, d)),
        ("max", fstart_is(r.left + k - r.max, r.t, n, d)),
        ("range", z3.And(r.left >= 1, r.left <= r.max)),
        ("abs_range", z3.And(r.left + k < U63, r.left + k - r.max >= 0)),
    ]


def match_fmt(s, fmt, nargs):
    """structural check that SStr s is exactly snprintf(fmt, args...) ; returns the args or None"""
    want = cext.parse_fmt(fmt, [("ARG", i) for i in range(nargs)])
    if len(want.parts) != len(s.parts):
        return None
    args = []
    for w, g in zip(want.parts, s.parts):
        if isinstance(w, str):
            if w != g:
                return None
        else:
            if isinstance(g, str) or g[0] != "conv" or g[1] != w[1]:
                return None
            args.append(g[2])
    return args


def verify_body(interp, ck_struct):
    """Proves digital_rf_get_subdir_file against the contract, modularly (callees by contract)."""
    name = "digital_rf_get_subdir_file"
    tu = interp.tu
    if name not in tu.funcs:
        raise Undecided("%s not found" % name)
    fn = tu.funcs[name]
    params = [c["name"] for c in fn["inner"] if c.get("kind") == "ParmVarDecl"]
    if params != ["hdf5_data_object", "global_sample", "subdir", "basename", "samples_left", "max_samples_this_file"]:
        raise Undecided("signature of %s changed: %s" % (name, params))
    st = State()
    wptr, w = c_obj.make_writer(interp, st)
    gs = z3.Int("global_sample")
    a = NS(global_sample=gs, start=w["global_start_sample"], k=gs + w["global_start_sample"], n=w["sample_rate_numerator"],
           d=w["sample_rate_denominator"], S=w["subdir_cadence_secs"], F=w["file_cadence_millisecs"])
    for _, c in requires(a):
        st.assume(c)
    o_sub = st.new_obj(SStr(()), "subdir")
    o_base = st.new_obj(SStr(()), "basename")
    o_left = st.new_obj(fresh_int("left0"), "left")
    o_max = st.new_obj(fresh_int("max0"), "max")
    args = [wptr, gs, Ptr(o_sub, 0), Ptr(o_base, 0), Ptr(o_left, 0), Ptr(o_max, 0)]
    paths = interp.run_function(name, st, args, {"overflow": "check"})
    n_ok = 0
    wobj = wptr.obj
    for s, rv in paths:
        interp.func = name
        # frame: the writer record is not modified
        same = s.mem[wobj] is st.mem[wobj] or all(s.mem[wobj].fields[f] is st.mem[wobj].fields[f] for f in st.mem[wobj].fields)
        ck_struct("%s.frame.writer_unchanged" % name, same, "get_subdir_file must not modify the writer record")
        if is_conc(rv) and rv != 0:
            # error return: must be infeasible under the precondition
            interp.oblige(s, "%s.no_error_return" % name, False, fn["_line"], kind="post", meta={"syms": a.__dict__})
            continue
        sub, base = s.mem[o_sub], s.mem[o_base]
        sargs = match_fmt(sub, SUBDIR_FMT, 6) if isinstance(sub, SStr) else None
        bargs = match_fmt(base, BASE_FMT, 2) if isinstance(base, SStr) else None
        ck_struct("%s.fmt.subdir" % name, sargs is not None, "subdir must be snprintf(%r, y,m,d,H,M,S); got %r" % (SUBDIR_FMT, sub))
        ck_struct("%s.fmt.basename" % name, bargs is not None, "basename must be snprintf(%r, sec, msec); got %r" % (BASE_FMT, base))
        if sargs is None or bargs is None:
            continue
        # the six calendar arguments must be the gmtime parts of one and the same second T
        T = None
        okparts = True
        for part, v in zip(c_time.PARTS, sargs):
            v = z3.simplify(Z(v))
            if v.decl().name() != "gm_" + part or v.num_args() != 1:
                okparts = False
                break
            if T is None:
                T = v.arg(0)
            elif not z3.eq(T, v.arg(0)):
                okparts = False
        ck_struct("%s.fmt.subdir_parts" % name, okparts, "subdir arguments must be year..second of one timestamp, in order; got %r" % (sargs,))
        if not okparts:
            continue
        fs, fm = Z(bargs[0]), Z(bargs[1])
        # samples_left / max_samples_this_file are differences of exact file-start indices: a floating-point value cannot carry that
        # for every rate and index of the domain (the same policy as the metadata placement, C13)
        flt = [nm for nm, o_ in (("samples_left", o_left), ("max_samples_this_file", o_max)) if isinstance(s.mem[o_], Opaque)]
        ck_struct("%s.integer_arithmetic" % name, not flt, "%s computed in floating point (%s): not exact on file boundaries for all rates" % (
            ", ".join(flt), [s.mem[o_].tag for o_ in (o_left, o_max) if isinstance(s.mem[o_], Opaque)]))
        if flt:
            n_ok += 1
            continue
        r = NS(ret=rv, T=T, t=1000 * fs + fm, left=s.mem[o_left], max=s.mem[o_max])
        interp.oblige(s, "%s.msec_digits" % name, z3.And(fm >= 0, fm < 1000, fs >= 0), fn["_line"], kind="post", meta={"syms": a.__dict__})
        for label, g in ensures(a, r):
            interp.oblige(s, "%s.%s" % (name, label), g, fn["_line"], kind="post", meta={"syms": a.__dict__})
        n_ok += 1
    for o in interp.obls:
        o.meta.setdefault("syms", a.__dict__)
    if n_ok == 0:
        raise EngineError("no successful path through %s" % name)
    return a
